#!/bin/bash
# Builds build/vcheck (-tags verif) and build/vcheck-race (-tags verif -race) from
# VERIF_REPO's current working tree + /verif/harness, through a go build overlay.
# Idempotent (content hash) and flock'ed so parallel checks share one build.
set -u
. "$(dirname "${BASH_SOURCE[0]}")/env.sh"
B="$VERIF_DIR/build"
mkdir -p "$B"
exec 9>"$B/.lock"
flock 9
WANT="${1:-all}"   # all | norace | race
hash_now() {
  { cd "$VERIF_REPO" && find . -name '*.go' -not -path './.git/*' -type f -print0 | sort -z | xargs -0 sha256sum; sha256sum go.mod go.sum; } 2>/dev/null
  { cd "$VERIF_DIR/harness" && find . -type f -print0 | sort -z | xargs -0 sha256sum; } 2>/dev/null
  [ -n "${VERIF_OVERLAY_EXTRA:-}" ] && sha256sum "$VERIF_OVERLAY_EXTRA" $(python3 -c "import json,sys;print(' '.join(json.load(open(sys.argv[1]))['Replace'].values()))" "$VERIF_OVERLAY_EXTRA") 2>/dev/null
  echo "repo=$VERIF_REPO"
}
H=$(hash_now | sha256sum | cut -d' ' -f1)
need_nr=1; need_r=1
[ -x "$B/vcheck" ] && [ "$(cat "$B/vcheck.hash" 2>/dev/null)" = "$H" ] && need_nr=0
[ -x "$B/vcheck-race" ] && [ "$(cat "$B/vcheck-race.hash" 2>/dev/null)" = "$H" ] && need_r=0
[ "$WANT" = norace ] && need_r=0
[ "$WANT" = race ] && need_nr=0
if [ $need_nr = 0 ] && [ $need_r = 0 ]; then exit 0; fi

# overlay: harness/<pkg>/*.go -> $VERIF_REPO/internal/verif/<pkg>/*.go
python3 - "$VERIF_DIR/harness" "$VERIF_REPO" "$B/overlay.json" "${VERIF_OVERLAY_EXTRA:-}" <<'PY'
import json,os,sys
h,repo,out,extra=sys.argv[1:5]
rep={}
for root,_,files in os.walk(h):
    for f in files:
        if f.endswith('.go') or f.endswith('.s'):
            src=os.path.join(root,f)
            rel=os.path.relpath(src,h)
            rep[os.path.join(repo,'internal','verif',rel)]=src
if extra:
    rep.update(json.load(open(extra))['Replace'])
json.dump({'Replace':rep},open(out,'w'),indent=1)
PY
# modfile: repo's go.mod + porcupine
cp "$VERIF_REPO/go.mod" "$B/go.mod"
cp "$VERIF_REPO/go.sum" "$B/go.sum"
cat "$VERIF_DIR/harness/extra.sum" >> "$B/go.sum" 2>/dev/null
printf '\nrequire github.com/anishathalye/porcupine v1.3.0\n' >> "$B/go.mod"
rc=0
cd "$VERIF_REPO" || exit 2
if [ $need_nr = 1 ]; then
  "$GO" build -tags verif -overlay "$B/overlay.json" -modfile "$B/go.mod" -o "$B/vcheck.new" ./internal/verif/vcheck >"$B/build.log" 2>&1 \
    && mv "$B/vcheck.new" "$B/vcheck" && echo "$H" > "$B/vcheck.hash" || { rc=2; cat "$B/build.log" >&2; }
fi
if [ $rc = 0 ] && [ $need_r = 1 ]; then
  "$GO" build -race -tags verif -overlay "$B/overlay.json" -modfile "$B/go.mod" -o "$B/vcheck-race.new" ./internal/verif/vcheck >"$B/build-race.log" 2>&1 \
    && mv "$B/vcheck-race.new" "$B/vcheck-race" && echo "$H" > "$B/vcheck-race.hash" || { rc=2; cat "$B/build-race.log" >&2; }
fi
exit $rc
