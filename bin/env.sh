# sourced by every script: offline Go environment for building against /repo
export GOTOOLCHAIN=local
export GOFLAGS=-mod=mod
export GOPROXY=off
export GOSUMDB=off
export GONOSUMDB='*'
export GONOSUMCHECK=1
export GOWORK=off
VERIF_DIR="${VERIF_DIR:-$(cd "$(dirname "${BASH_SOURCE[0]}")/.." && pwd)}"
VERIF_REPO="${VERIF_REPO:-/repo}"
GO=/root/go/pkg/mod/golang.org/toolchain@v0.0.1-go1.25.0.linux-amd64/bin/go
if [ ! -x "$GO" ]; then
  if command -v go1.26 >/dev/null 2>&1; then GO=$(command -v go1.26); else GO=go; fi
fi
export GO VERIF_DIR VERIF_REPO
