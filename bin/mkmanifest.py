#!/usr/bin/env python3
"""Regenerates /verif/MANIFEST.json from the table below (single source of truth)."""
import json, os
V = os.path.dirname(os.path.dirname(os.path.abspath(__file__)))
props = [json.loads(l) for l in open(os.path.join(V, 'properties.jsonl'))]
TB = ("trusted base: Go runtime/stdlib (net/http, compress/gzip, encoding/json), protobuf-go as reference codec, "
      "and the harness's own wire simulators/validators (harness/vcheck); connect-go and grpc-go are not trusted by any oracle")
checks = {
 "C01": ("exploration", "conservation/order oracle over independently decoded messages on both legs",
         "Held on the PRNG-determined scenario list of the tier (quick 20k, thorough 400k executions of the real Transcoder.ServeHTTP): random service configuration x client wire form x method x generated messages x per-frame compression choices; the oracle decodes what the backend and the client received with reference codecs and compares sequences. Says nothing about scenarios not generated.", "5/C01"),
 "C02": ("exploration", "strict per-protocol request validators + negotiation model at the backend boundary",
         "Every request handed to the scripted backend is checked by a strict validator of the protocol it is addressed in (request line, content-type, control headers, envelope flags and lengths, declared compression vs bytes) and against the negotiation model (kept iff acceptable), over 20k/400k generated scenarios and all 15 protocol subsets.", "5/C02"),
 "C03": ("exploration", "strict per-protocol response validators over the recorder log",
         "Every response delivered to the instrumented client-side ResponseWriter is checked by a strict validator of the client's own protocol (status, content-type, envelopes, declared compression vs bytes, Content-Length, exactly one terminal disposition) over 25k/500k scenarios with varied backend behaviour; pass-through responses are excluded (they are the backend's).", "5/C03"),
 "C04": ("exploration", "equality of (code, message, details) across the transcoder + published code tables, near-exhaustive small domains",
         "Codes 1..16 and out-of-range codes x message pool x 0..3 typed details x error position x client forms x target protocols (12k/240k cases, thorough enumerates every HTTP status 300..599 for bare failures); client-decoded error compared with the backend's, HTTP status with the published tables; transcoder panics are violations.", "5/C04"),
 "C06": ("exploration", "reference google.api.http template matcher (set of matches) + permutation metamorphism over generated route tables",
         "1.5k/30k generated route tables accepted by NewTranscoder, each probed with ~40 derived and perturbed raw paths x HTTP methods (quick ~180k, thorough ~3.6M requests through ServeHTTP); dispatch must be justified by a matching binding with once-decoded captures, no match => 404, single (or single all-literal) template => its binding or 405 with Allow within the template's methods, RPC paths exact, and outcomes identical under rule permutation and re-construction. Ambiguous readings of the grammar are excluded from the strict clauses.", "5/C06"),
 "C07": ("exploration", "reference REST renderer/binder, chained-transcoder round trip, ill-typed parameter enumeration",
         "18k/360k cases over all REST-bound Kitchen rules: reference-rendered REST requests must bind to the original message; RPC messages converted to REST must re-parse under the same rule to the original; RPC->REST->RPC through two chained transcoders must be the identity; ill-typed path/query values must be rejected as invalid_argument without dispatch; unknown query keys rejected unless configured to be discarded.", "5/C07"),
 "C08": ("exploration", "metamorphic comparison against a reference segmentation, exhaustive compositions for streams <= 13 bytes",
         "Each base scenario is re-executed under ~45 read/write segmentations (client chunkings, handler read buffers 1..8/64/4096, handler write plans) and, in the thorough tier, under all 2^(n-1) compositions of request bodies and response streams of at most 13 bytes; decoded views must be identical to the reference run, raw bytes too wherever nothing is re-encoded in binary form. Adapter-path hooks must all have fired or the run is inconclusive.", "5/C08"),
 "C09": ("fault_enumeration", "fault enumeration (every cut offset, flag value, bit flip, length lie) with a fault-aware backend and non-OK / prefix / well-formedness oracles",
         "For each base scenario every single fault of the listed kinds is injected, one per execution (quick ~130k, thorough ~1.6M faulted executions): the client must see a non-OK outcome, the backend never a complete-looking message the client did not finish, the error must be well formed where the protocol allows it, ServeHTTP must return. Exhaustive per base scenario for cut offsets and flag values; base scenarios are sampled.", "5/C09"),
 "C10": ("exploration", "pool-capacity hook (largest pooled buffer per request) + self-calibrated size boundaries in a serial, quiet process",
         "900/9000 scenarios (limits 1 KiB..1 MiB; sizes L-1..100L; gzip ratios to 1000:1; JSON-expanding messages; large and compressed error bodies and end frames; frames that merely announce a huge length; incompressible payloads sent as gzip; forced re-encoding and single-target strata; both directions), each run first under a 1 GiB limit to observe every representation size and then under L: everything fits => success; size-affected failure => resource_exhausted; the largest buffer the pool hooks see during the request - and the capacity of every buffer handed out, measured again when the request is over - must stay <= 4L+64 KiB. TotalAlloc deltas are recorded only (heap shared with the harness).", "5/C10"),
 "C11": ("fault_enumeration", "recover()/journal/watchdog monitors and net/http framing assertions over structure-aware hostile inputs and hostile backend scripts",
         "60k (quick) / 1.2M (thorough) executions of ServeHTTP with requests mutated by 0..4 hostile operators and backends following hostile scripts; any panic that is not the backend's own scripted panic, any process death, any response net/http could not frame (status range, Content-Length vs bytes, body on 204/304), a second response head, I/O after return or a double dispatch is a violation. Says nothing about inputs outside the generator's reach.", "5/C11"),
 "C12": ("exploration", "exact-arithmetic reference grammars (math/big) over boundary-enumerated timeout strings",
         "20k/300k (client form, target, timeout string) cases incl. every digit-count and unit boundary (thorough: every 1..3 digit gRPC value x unit); backend-observed deadline compared with the client's in exact rational arithmetic: never extended, short by less than the target encoding's rounding unit, absent stays absent, valid never rejected, malformed rejected with 4xx before dispatch.", "5/C12"),
 "C13": ("exploration", "deep snapshot equality of request and response across the transcoder on the no-conversion and unknown-endpoint paths",
         "20k/300k requests whose triple the service accepts (pass-through) or whose path matches nothing (unknown-endpoint handler), with arbitrary headers, queries, bodies and lengths (including the late not-found of a REST-only service's unbound method); the downstream handler's view must equal a snapshot taken before ServeHTTP, and the client must receive exactly what the handler wrote.", "5/C13"),
 "C18": ("fault_enumeration", "invocation counters, context capture and after-return I/O flags over an enumeration of rejection classes and exit paths",
         "19 rejection classes (incl. a leading message that decodes but cannot be routed, and Connect markers on non-GET requests with and without a content-type) x client forms x random configurations and 5 exit-path classes (30k/600k executions): at most one dispatch, none for rejected requests, handler context cancelled and no reads/writes after ServeHTTP returned.", "5/C18"),
 "C14": ("exploration", "Go race detector + pool ownership automaton (poison/quarantine) + solo-vs-concurrent differential + porcupine on the pool history",
         "Race-detector build. 90/1800 rounds: W1 = 32 marker-carrying RPCs (mixed forms, codecs, compressions, some faulty) run alone and then from 2/8/32 goroutines on one Transcoder with yields at the hook points - outcomes must equal the solo outcomes, no foreign marker; W2 = full-duplex streams whose handler reads and writes from two goroutines while the request stream is fault-free or breaks at a chosen message - delivered frames must be the handler's, intact, with one end; W3 = error paths (tiny limits with chunked handler writes, messages failing inside the decompressor, cut bodies) one RPC at a time under the automaton. The process's own GORACE log is parsed at the end (reports de-duplicated by innermost vanguard frame pair); the pool hooks run an ownership automaton (double release of buffers and (de)compressors, hand-out of a live object, write after release detected by whole-array poison checked at the next hand-out and by a quarantine); thorough additionally checks recorded pool histories with porcupine.", "5/C14"),
 "C15": ("exploration", "fresh-vs-used differential over hostile histories with poison-on-release pool hooks and reuse attribution",
         "200/4000 histories of 1..80 hostile requests (mutations, corrupt gzip, limit breaches, backend panics, sizes around the 8 MiB pool cut-off) on one Transcoder under GOMAXPROCS=1, each followed by 10 probe RPCs whose canonical outcomes must equal those on never-used Transcoders; released buffers are poisoned by the pool hook and the hooks prove that probes really received buffers and (de)compressors last used by failed requests (coverage minimum).", "5/C15"),
 "C16": ("exploration", "flush accounting at the recorder + request look-ahead monitor in memory; strict ping-pong over real h2c (bounded progress)",
         "1200/20000 streaming scenarios (3 client forms x 3 targets x codec/compression pairs x rounds 1..100 x sizes 0..70 KiB incl. zero-length payloads x handlers reading exact sizes or through a 32 KiB buffer x stream shapes): in memory, when the handler's Write of message k returns the client-side recorder must hold frame k followed by a Flush, and request bytes of message j may only be pulled once the handler has obtained messages before j; every 10th case runs a strict ping-pong over a real HTTP/2 (h2c) connection, where all rounds must complete (stalls confirmed by an isolated re-run).", "5/C16"),
 "C17": ("exploration", "reference servability predicate (known refusal reasons) + probes of accepted configurations",
         "6k/120k generated configurations: valid bases with (in 60%) one injected reason to be refused out of 25 classes - NewTranscoder must return an error and no transcoder for those, and for accepted configurations every binding must be reachable through the URL rendered from its template and land on the declared method, exact selectors must bind only the named method, per-service options must beat defaults on the wire.", "5/C17"),
 "C19": ("exploration", "GET safety oracle + GET-vs-POST decode equivalence + self-calibrated URL-length boundary",
         "12k/240k cases: Connect GET refused with 405+Allow unless the method is side-effect-free and never dispatched; GET and POST with the same content decode to the same backend message for every query encoding; a GET seen by the backend implies a GET client request, a side-effect-free method, a stable codec and a URL within the limit (boundary triples U-1/U/U+1 with U observed under a huge limit).", "5/C19"),
 "C20": ("exploration", "metamorphic differential between generated and dynamically loaded schemas, and between vanguardgrpc and by-name registration",
         "12k/240k scenario pairs over the Library/Content services executed against a transcoder built from generated code and one built from re-parsed descriptors (dynamic http options), know-nothing / partial resolvers, parent-less service descriptors; and a grpc.Server wrapped by vanguardgrpc vs registered by name. Canonical outcomes on both sides must be equal.", "5/C20"),
 "C05": ("exploration", "per-key metadata equality + position check + status-key leak monitor",
         "Random application header/trailer sets are pushed through every client-form/target pairing (20k/300k scenarios); per-key ordered value equality in both directions, trailers in the position the client's protocol defines, no protocol status key in application metadata.", "5/C05"),
}
m = {
 "version": 1,
 "setup_cmd": "bin/build.sh all",
 "hooks": {"guard": "verif", "enable": "go build -tags verif (done by bin/build.sh through a build overlay)",
           "baseline_off_cmd": "cd /repo && go test -mod=mod -vet=off -count=1 -timeout 25m ./...",
           "source_commits": ["1fba081"], "add_only": True},
 "engines": [{"name": "vcheck", "path": "harness/vcheck", "serves_properties": sorted(checks),
              "kind_free_text": "Go harness compiled into the vanguard module through a go build overlay (harness/vcheck -> /repo/internal/verif/vcheck); wire-level client and backend simulators, strict validators, reference models, hook-based monitors; one process per property"}],
 "checks": [], "not_applicable": [],
 "notes": "bin/check <ID> <tier> rebuilds from /repo's working tree when it changed (content hash), runs the property in its own process, rewrites evidence/<ID>.json, prints VIOLATION/KNOWN-FINDING/INCONCLUSIVE lines. VERIF_SEED selects the PRNG seed. known_findings.json lists recorded findings and fixed defects. See DESIGN.md.",
}
for p in props:
    pid = p['id']
    if pid in checks:
        lvl, tech, text, ref = checks[pid]
        m["checks"].append({
            "property_id": pid, "quick_cmd": f"bin/check {pid} quick", "thorough_cmd": f"bin/check {pid} thorough",
            "evidence_file": f"/verif/evidence/{pid}.json", "replay_cmd_template": "bin/check replay {path}",
            "engine": "vcheck", "level_claimed": {"category": lvl, "text": text, "design_ref": ref},
            "level_note": TB, "technique": "runtime monitoring: " + tech})
    else:
        m["not_applicable"].append({"property_id": pid, "reason": "no check registered"})
json.dump(m, open(os.path.join(V, 'MANIFEST.json'), 'w'), indent=1)
print("checks:", len(m["checks"]), "not_applicable:", len(m["not_applicable"]))
