package main

import (
	"fmt"
	"math/rand/v2"
)

func init() {
	register(&Property{
		ID:    "C03",
		Level: "exploration",
		Rule: "scenario(i) as in C01 with backend-behaviour variety (errors before/after k messages, trailers-only, bare HTTP errors, per-frame flags, compressed end frames, " +
			"declared Content-Length, Trailer declarations also on trailers-only responses, status keys next to a successful status, empty responses, odd write segmentation) plus transcoder-generated errors, including a stratum (12%) with a tiny message buffer limit and a handler writing in pieces so that the limit trips in the middle of a body; oracle = strict response validator of the client's own wire form " +
			"over the recorder log (status, content-type, envelopes, declared compression vs bytes, Content-Length, exactly one terminal disposition, nothing after it). " +
			"non-trivial = protocol pair differs or the script is not a plain success; distinct by (cell, script shape, outcome kind)",
		Assume: []string{"strict validators in client.go written from the protocol documents", "Recorder reproduces net/http's header-snapshot, trailer and Content-Length rules"},
		N:      func(t string) int { return tierN(t, 25000, 500000) },
		Run:    runC03,
		MinimaFor: func(t string) map[string]int {
			return map[string]int{"kind:ok": tierN(t, 7000, 140000), "kind:error": tierN(t, 3000, 60000)}
		},
	})
}

func scriptShape(s *BackendScript) string {
	switch {
	case s.Bare != nil:
		return "bare-http"
	case s.Err != nil && s.TrailersOnly && s.ErrAfter == 0:
		return "error-trailers-only"
	case s.Err != nil:
		return fmt.Sprintf("error-after-%d", min(s.ErrAfter, 2))
	case s.DeclLen:
		return "declared-length"
	case len(s.Msgs) == 0:
		return "empty"
	}
	return "success"
}

func runC03(c *Ctx, i int, r *rand.Rand) {
	s := genScenario(r, ScenOpts{Variety: true, Timeouts: chance(r, 20), Headers: chance(r, 30)}, fmt.Sprintf("mk%d", i))
	if chance(r, 12) {
		// errors the transcoder generates itself in the middle of a body: a small message buffer limit plus a
		// handler that writes in pieces, so that the limit trips after part of a message was already taken
		cfg := *s.Cfg
		cfg.Limit = pick(r, []uint32{48, 200, 1000})
		s.Cfg = &cfg
		s.Script.WriteSeg = pick(r, [][]int{{16}, {40, 1 << 20}, {1, 1, 1, 1, 1, 2, 3, 1000}, {5, 7}, nil})
		c.Count("small-limit-stratum")
	}
	e, err := runRPC(s.Cfg, s.Req, s.Script, r, &execOpts{Chunks: chunkPlan(r)})
	if err != nil {
		c.Violate(i, "harness/build", err.Error())
		return
	}
	c.Eval()
	if i < 3 {
		c.Sample(map[string]any{"case": i, "cell": s.Cell(), "script": scriptShape(s.Script), "describe": e.Describe()})
	}
	checkC03(c, i, s, e)
	checkLeak(c, i, s, e)
}

func checkC03(c *Ctx, i int, s *Scenario, e *Exec) {
	if e.Panic != nil {
		c.Count("panic")
		c.Violate(i, "transcoder-panic/"+panicSite(e.Stack), fmt.Sprintf("ServeHTTP panicked (net/http aborts the response): %v\n%s", e.Panic, e.Describe()))
		return
	}
	o := e.Out
	bo := e.Backend.Obs
	if passThrough(s, bo) {
		// nothing was converted: the response is the backend's own (C13), not the transcoder's
		c.Count("pass-through")
		return
	}
	c.Count("kind:" + o.Kind)
	shape := scriptShape(s.Script)
	feat := fmt.Sprintf("%s<-%s/%s", s.Req.Form, orNone(bo.target()), shape)
	if bo.target() != s.Req.Form.Protocol() || shape != "success" {
		c.Nontrivial(fmt.Sprintf("%s|%s|%s|%d", s.Cell(), shape, o.Kind, len(s.Script.Msgs)))
	}
	for _, m := range o.Malformed {
		c.Violate(i, "invalid-response/"+feat+"/"+classify(m), fmt.Sprintf("strict %s response validator: %s\n%s", s.Req.Form, m, e.Describe()))
	}
	if o.Kind == "httperror" && bo.Invocations > 0 && s.Req.Form != FConnectUnary && s.Req.Form != FConnectGet && s.Req.Form != FREST {
		// after the protocol was established, enveloped protocols prescribe HTTP 200 and an in-protocol error
		c.Violate(i, "bare-http-status-after-dispatch/"+feat, e.Describe())
	}
	if o.Kind == "" {
		c.Violate(i, "no-outcome/"+feat, e.Describe())
	}
	if o.Kind != "httperror" && o.Ends != 1 {
		c.Violate(i, fmt.Sprintf("terminal-dispositions-%d/%s", o.Ends, feat), e.Describe())
	}
	if o.Kind == "ok" && (s.Script.Err != nil || s.Script.Bare != nil) && bo.Invocations > 0 {
		c.Violate(i, "error-became-success/"+feat, e.Describe())
	}
}

// passThrough mirrors the documented rule: no conversion when protocol, codec and request
// compression of the client are all acceptable to the service.
func passThrough(s *Scenario, bo *BackendObs) bool {
	if bo.Invocations == 0 {
		return false
	}
	return bo.target() == s.Req.Form.Protocol() && bo.Codec == s.Req.Codec && bo.Comp == s.Req.Comp
}
