package main

// Installation of the build-tag-guarded observation hooks of package vanguard.

import (
	"bytes"
	"sync"
	"sync/atomic"

	"connectrpc.com/vanguard"
)

var (
	pointCounts sync.Map // name -> *atomic.Int64
	hookMode    atomic.Int32
)

func pointCounter(name string) *atomic.Int64 {
	if v, ok := pointCounts.Load(name); ok {
		return v.(*atomic.Int64)
	}
	v, _ := pointCounts.LoadOrStore(name, new(atomic.Int64))
	return v.(*atomic.Int64)
}

// installCountingHooks counts adapter-path points (coverage evidence). Pool hooks are
// installed by the properties that need them (C10, C14, C15).
func installCountingHooks(extra *vanguard.VerifHooks) {
	h := &vanguard.VerifHooks{}
	if extra != nil {
		*h = *extra
	}
	user := h.Point
	h.Point = func(name string) {
		pointCounter(name).Add(1)
		if user != nil {
			user(name)
		}
	}
	vanguard.VerifSetHooks(h)
}

func snapshotPoints() map[string]int64 {
	out := map[string]int64{}
	pointCounts.Range(func(k, v any) bool {
		out[k.(string)] = v.(*atomic.Int64).Load()
		return true
	})
	return out
}

var _ = bytes.MinRead
