package main

import (
	"fmt"
	"math/rand/v2"
)

func init() {
	register(&Property{
		ID:    "C02",
		Level: "exploration",
		Rule: "scenario(i) as in C01 plus client control headers (timeouts, accept lists, declared lengths); oracle = strict per-protocol request validator on the " +
			"*http.Request and body bytes seen by the service handler (several read-buffer sizes) + negotiation model (kept iff acceptable). " +
			"non-trivial = the backend was invoked with a request converted in protocol, codec or compression; distinct by (cell, codec pair, compression pair, config)",
		Assume: []string{"strict validators in backend.go are written from the Connect, gRPC-HTTP2, gRPC-Web and google.api.http documents; header names compared case-insensitively"},
		N:      func(t string) int { return tierN(t, 20000, 400000) },
		Run:    runC02,
		MinimaFor: func(t string) map[string]int {
			return map[string]int{"backend-invoked": tierN(t, 12000, 250000), "converted": tierN(t, 6000, 120000)}
		},
	})
}

func runC02(c *Ctx, i int, r *rand.Rand) {
	s := genScenario(r, ScenOpts{Timeouts: true, Headers: chance(r, 30)}, fmt.Sprintf("mk%d", i))
	if s != nil && s.Req.Form != FGRPC && chance(r, 10) {
		s.Req.HTTP3 = true // the transcoder mounted on an HTTP/3 server
	}
	e, err := runRPC(s.Cfg, s.Req, s.Script, r, &execOpts{Chunks: chunkPlan(r)})
	if err != nil {
		c.Violate(i, "harness/build", err.Error())
		return
	}
	c.Eval()
	if i < 3 {
		c.Sample(map[string]any{"case": i, "cell": s.Cell(), "describe": e.Describe()})
	}
	checkC02(c, i, s, e)
}

func checkC02(c *Ctx, i int, s *Scenario, e *Exec) {
	bo := e.Backend.Obs
	if e.Panic != nil || bo.Invocations == 0 {
		c.Count("not-invoked")
		return
	}
	c.Count("backend-invoked")
	c.Count("target:" + bo.Proto)
	cfg := s.Cfg
	feat := fmt.Sprintf("%s->%s", s.Req.Form, bo.target())
	for _, b := range bo.Bad {
		c.Violate(i, "invalid-request/"+feat+"/"+classify(b), fmt.Sprintf("strict %s request validator: %s\n%s", bo.Proto, b, e.Describe()))
	}
	if !cfg.HasProtocol(bo.target()) {
		c.Violate(i, "protocol-not-configured/"+feat, e.Describe())
	}
	if bo.Proto != "rest" && !contains(cfg.Codecs, bo.Codec) {
		c.Violate(i, "codec-not-configured/"+feat+"/"+bo.Codec, e.Describe())
	}
	if bo.Comp != "" && !contains(cfg.Comps, bo.Comp) {
		c.Violate(i, "compression-not-configured/"+feat+"/"+bo.Comp, e.Describe())
	}
	// kept rather than converted
	cp := s.Req.Form.Protocol()
	if cfg.HasProtocol(cp) && bo.target() != cp {
		c.Violate(i, "protocol-converted-needlessly/"+feat, e.Describe())
	}
	if bo.Proto != "rest" && contains(cfg.Codecs, s.Req.Codec) && bo.Codec != s.Req.Codec {
		c.Violate(i, "codec-converted-needlessly/"+feat, e.Describe())
	}
	if s.Req.Comp != "" && contains(cfg.Comps, s.Req.Comp) && bo.Comp != s.Req.Comp && len(bo.Body) > 0 {
		c.Violate(i, "compression-dropped-needlessly/"+feat, e.Describe())
	}
	if bo.MethodInfo != nil && bo.MethodInfo != s.Req.M {
		c.Violate(i, "wrong-method/"+feat, e.Describe())
	}
	converted := bo.target() != cp || bo.Codec != s.Req.Codec || bo.Comp != s.Req.Comp
	if converted {
		c.Count("converted")
		c.Nontrivial(fmt.Sprintf("%s|%s>%s|%s>%s|%v%v%v", s.Cell(), s.Req.Codec, bo.Codec, s.Req.Comp, bo.Comp, cfg.Protocols, cfg.Codecs, cfg.Comps))
	}
}

// classify reduces a validator message to its categorical part (text before the first quote/digit payload).
func classify(msg string) string {
	out := []rune{}
	for _, ch := range msg {
		if ch == '"' || ch == ':' || (ch >= '0' && ch <= '9') {
			break
		}
		if ch == ' ' {
			ch = '-'
		}
		out = append(out, ch)
	}
	s := string(out)
	if len(s) > 60 {
		s = s[:60]
	}
	for len(s) > 0 && s[len(s)-1] == '-' {
		s = s[:len(s)-1]
	}
	return s
}
