package main

// Reflection-driven, seeded message generator with boundary pools.

import (
	"math"
	"math/rand/v2"
	"strings"

	"google.golang.org/protobuf/encoding/protojson"
	"google.golang.org/protobuf/proto"
	"google.golang.org/protobuf/reflect/protoreflect"
)

var stringPool = []string{
	"", "a", "hello", "Hello World", "a/b", "a%b", "100%", "%2F", "%25", "a:b", ":verb", "x?y=z&w", "a+b", "a b",
	"#frag", "é", "日本語", "😀", " ", "퟿", "~-._", "[]{}|\\^`\"<>", "\t\n\r", "null", "true", "0", "-1",
	"1e9", "NaN", "Infinity", "\"quoted\"", "a=b", "a;b", "a,b", "@!$&'()*", "..", ".", "shelves/1/books/2",
}

var int64Pool = []int64{0, 1, -1, 2, 127, 128, 255, 256, 32767, 65535, 65536, math.MaxInt32, math.MinInt32,
	math.MaxInt32 + 1, math.MaxUint32, 1 << 53, (1 << 53) + 1, math.MaxInt64, math.MinInt64, -(1 << 53) - 1}

var floatPool = []float64{0, math.Copysign(0, -1), 1, -1, 0.1, 1.5, 1e-7, 1e21, 123456789.125, math.MaxFloat32,
	math.SmallestNonzeroFloat32, math.MaxFloat64, math.SmallestNonzeroFloat64, math.NaN(), math.Inf(1), math.Inf(-1),
	float64(float32(3.14159)), 16777217}

type genOpts struct {
	depth     int  // nesting budget
	density   int  // percent chance a field is populated
	noNaN     bool // avoid NaN/Inf (for legs where it is unrepresentable)
	maxStr    int  // long random strings up to this many bytes (0 = pool only)
	marker    string
	noMaps    bool
	simpleStr bool
	allowQuoted bool
}

func genString(r *rand.Rand, o *genOpts) string {
	if o.simpleStr {
		return pick(r, []string{"", "a", "hello", "Hello", "xyz", "v1", "0"})
	}
	if o.maxStr > 0 && chance(r, 15) {
		n := r.IntN(o.maxStr + 1)
		var sb strings.Builder
		for sb.Len() < n {
			sb.WriteString(pick(r, stringPool))
			sb.WriteByte(byte('a' + r.IntN(26)))
		}
		return sb.String()
	}
	if chance(r, 70) {
		return pick(r, stringPool)
	}
	// compose
	return pick(r, stringPool) + pick(r, stringPool)
}

func genBytes(r *rand.Rand, o *genOpts) []byte {
	switch r.IntN(6) {
	case 0:
		return nil
	case 1:
		return []byte{0}
	case 2:
		b := make([]byte, 256)
		for i := range b {
			b[i] = byte(i)
		}
		return b
	case 3:
		return []byte{0xff, 0xfe, 0xfd}
	default:
		n := r.IntN(40)
		if o.maxStr > 0 && chance(r, 20) {
			n = r.IntN(o.maxStr + 1)
		}
		b := make([]byte, n)
		for i := range b {
			b[i] = byte(r.IntN(256))
		}
		return b
	}
}

func genFloat(r *rand.Rand, o *genOpts) float64 {
	for {
		f := pick(r, floatPool)
		if chance(r, 20) {
			f = r.NormFloat64() * 1e6
		}
		if o.noNaN && (math.IsNaN(f) || math.IsInf(f, 0)) {
			continue
		}
		return f
	}
}

func genInt(r *rand.Rand) int64 {
	if chance(r, 75) {
		return pick(r, int64Pool)
	}
	return int64(r.Uint64())
}

func genScalar(r *rand.Rand, fd protoreflect.FieldDescriptor, o *genOpts) protoreflect.Value {
	switch fd.Kind() {
	case protoreflect.BoolKind:
		return protoreflect.ValueOfBool(r.IntN(2) == 0)
	case protoreflect.Int32Kind, protoreflect.Sint32Kind, protoreflect.Sfixed32Kind:
		return protoreflect.ValueOfInt32(int32(genInt(r)))
	case protoreflect.Int64Kind, protoreflect.Sint64Kind, protoreflect.Sfixed64Kind:
		return protoreflect.ValueOfInt64(genInt(r))
	case protoreflect.Uint32Kind, protoreflect.Fixed32Kind:
		return protoreflect.ValueOfUint32(uint32(genInt(r)))
	case protoreflect.Uint64Kind, protoreflect.Fixed64Kind:
		return protoreflect.ValueOfUint64(uint64(genInt(r)))
	case protoreflect.FloatKind:
		f := genFloat(r, o)
		return protoreflect.ValueOfFloat32(float32(f))
	case protoreflect.DoubleKind:
		return protoreflect.ValueOfFloat64(genFloat(r, o))
	case protoreflect.StringKind:
		return protoreflect.ValueOfString(genString(r, o))
	case protoreflect.BytesKind:
		return protoreflect.ValueOfBytes(genBytes(r, o))
	case protoreflect.EnumKind:
		vals := fd.Enum().Values()
		return protoreflect.ValueOfEnum(vals.Get(r.IntN(vals.Len())).Number())
	}
	panic("genScalar: " + fd.Kind().String())
}

// genWKT fills well-known types with values inside their valid JSON range.
func genWKT(r *rand.Rand, m protoreflect.Message, o *genOpts) bool {
	md := m.Descriptor()
	f := md.Fields()
	switch md.FullName() {
	case "google.protobuf.Timestamp":
		secs := pick(r, []int64{0, 1, -1, 1700000000, -62135596800, 253402300799, 951782400})
		nanos := pick(r, []int32{0, 1, 999999999, 500000000, 123000000, 1000})
		m.Set(f.ByName("seconds"), protoreflect.ValueOfInt64(secs))
		m.Set(f.ByName("nanos"), protoreflect.ValueOfInt32(nanos))
		return true
	case "google.protobuf.Duration":
		secs := pick(r, []int64{0, 1, -1, 3600, 315576000000, -315576000000, 86400})
		nanos := pick(r, []int32{0, 1, 999999999, 500000000, 1000})
		if secs < 0 {
			nanos = -nanos
		}
		if secs == 0 && chance(r, 30) {
			nanos = -nanos
		}
		m.Set(f.ByName("seconds"), protoreflect.ValueOfInt64(secs))
		m.Set(f.ByName("nanos"), protoreflect.ValueOfInt32(nanos))
		return true
	case "google.protobuf.FieldMask":
		l := m.Mutable(f.ByName("paths")).List()
		for i, n := 0, r.IntN(3); i < n; i++ {
			l.Append(protoreflect.ValueOfString(pick(r, []string{"a", "foo_bar", "a.b_c", "x.y.z", "user.display_name"})))
		}
		return true
	case "google.protobuf.StringValue":
		if chance(r, 70) {
			v := genString(r, o)
			// a value that starts and ends with a double quote is taken for an already-quoted JSON
			// string by the URL parameter parser (pinned by the repo's own tests); C07 probes that
			// separately, the shared generator stays clear of it.
			if !o.allowQuoted && len(v) >= 2 && v[0] == '"' && v[len(v)-1] == '"' {
				v = "q" + v
			}
			m.Set(f.ByName("value"), protoreflect.ValueOfString(v))
		}
		return true
	case "google.protobuf.Any":
		return true // left empty: arbitrary type URLs are not resolvable
	case "google.protobuf.Value":
		if o.noMaps {
			genValue(r, m, 0) // scalars only: a struct_value holds a map
			if m.Has(f.ByName("list_value")) || m.Has(f.ByName("struct_value")) {
				m.Set(f.ByName("bool_value"), protoreflect.ValueOfBool(true))
			}
			return true
		}
		genValue(r, m, 2)
		return true
	case "google.protobuf.Struct":
		if o.noMaps {
			return true
		}
		genStruct(r, m, 2)
		return true
	case "google.protobuf.ListValue":
		if o.noMaps {
			return true
		}
		l := m.Mutable(f.ByName("values")).List()
		for i, n := 0, r.IntN(3); i < n; i++ {
			e := l.NewElement()
			genValue(r, e.Message(), 1)
			l.Append(e)
		}
		return true
	}
	return false
}

func genValue(r *rand.Rand, m protoreflect.Message, depth int) {
	f := m.Descriptor().Fields()
	k := r.IntN(6)
	if depth <= 0 && k >= 4 {
		k = r.IntN(4)
	}
	switch k {
	case 0:
		m.Set(f.ByName("null_value"), protoreflect.ValueOfEnum(0))
	case 1:
		m.Set(f.ByName("number_value"), protoreflect.ValueOfFloat64(pick(r, []float64{0, 1, -1.5, 1e21, 123456789})))
	case 2:
		m.Set(f.ByName("string_value"), protoreflect.ValueOfString(pick(r, stringPool)))
	case 3:
		m.Set(f.ByName("bool_value"), protoreflect.ValueOfBool(r.IntN(2) == 0))
	case 4:
		genStruct(r, m.Mutable(f.ByName("struct_value")).Message(), depth-1)
	case 5:
		l := m.Mutable(f.ByName("list_value")).Message().Mutable(m.Descriptor().Fields().ByName("list_value").Message().Fields().ByName("values")).List()
		for i, n := 0, r.IntN(3); i < n; i++ {
			e := l.NewElement()
			genValue(r, e.Message(), depth-1)
			l.Append(e)
		}
	}
}

func genStruct(r *rand.Rand, m protoreflect.Message, depth int) {
	fd := m.Descriptor().Fields().ByName("fields")
	mp := m.Mutable(fd).Map()
	for i, n := 0, r.IntN(3); i < n; i++ {
		v := mp.NewValue()
		genValue(r, v.Message(), depth)
		mp.Set(protoreflect.ValueOfString(pick(r, []string{"a", "b", "k e y", "é", ""})).MapKey(), v)
	}
}

func genFill(r *rand.Rand, m protoreflect.Message, o *genOpts, depth int) {
	if genWKT(r, m, o) {
		return
	}
	fields := m.Descriptor().Fields()
	seenOneof := map[string]bool{}
	for i := 0; i < fields.Len(); i++ {
		fd := fields.Get(i)
		if !chance(r, o.density) {
			continue
		}
		if od := fd.ContainingOneof(); od != nil && !od.IsSynthetic() {
			if seenOneof[string(od.Name())] {
				continue
			}
			// choose uniformly one arm of the oneof
			arms := od.Fields()
			fd = arms.Get(r.IntN(arms.Len()))
			seenOneof[string(od.Name())] = true
		}
		switch {
		case fd.IsMap():
			if o.noMaps {
				continue
			}
			mp := m.Mutable(fd).Map()
			for j, n := 0, r.IntN(3); j < n; j++ {
				k := genScalar(r, fd.MapKey(), o).MapKey()
				var v protoreflect.Value
				if fd.MapValue().Message() != nil {
					v = mp.NewValue()
					if depth > 0 {
						sub := *o
						sub.density = o.density / 3
						genFill(r, v.Message(), &sub, depth-1)
					}
				} else {
					v = genScalar(r, fd.MapValue(), o)
				}
				mp.Set(k, v)
			}
		case fd.IsList():
			if fd.Message() != nil && fd.Message().FullName() == "google.protobuf.Any" {
				continue
			}
			l := m.Mutable(fd).List()
			for j, n := 0, r.IntN(4); j < n; j++ {
				if fd.Message() != nil {
					e := l.NewElement()
					if depth > 0 || isWKT(fd.Message()) {
						sub := *o
						sub.density = o.density / 3
						genFill(r, e.Message(), &sub, depth-1)
					}
					l.Append(e)
				} else {
					l.Append(genScalar(r, fd, o))
				}
			}
		case fd.Message() != nil:
			if depth <= 0 && !isWKT(fd.Message()) {
				if chance(r, 50) {
					m.Mutable(fd) // present but empty
				}
				continue
			}
			sub := *o
			sub.density = o.density / 2
			genFill(r, m.Mutable(fd).Message(), &sub, depth-1)
		default:
			m.Set(fd, genScalar(r, fd, o))
		}
	}
}

func isWKT(md protoreflect.MessageDescriptor) bool {
	return strings.HasPrefix(string(md.FullName()), "google.protobuf.")
}

// genMessage produces a random message of type md.
func genMessage(r *rand.Rand, md protoreflect.MessageDescriptor, o genOpts) proto.Message {
	msg := newMsg(md)
	if o.density == 0 {
		o.density = pick(r, []int{0, 5, 15, 30, 60})
	}
	if o.depth == 0 {
		o.depth = 2
	}
	genFill(r, msg.ProtoReflect(), &o, o.depth)
	if o.marker != "" {
		setMarker(msg, o.marker)
	}
	return msg
}

// setMarker writes a unique marker into the message's marker field.
func setMarker(msg proto.Message, marker string) {
	m := msg.ProtoReflect()
	for _, name := range []protoreflect.Name{"string_value", "title", "filename", "page", "content_type", "name"} {
		if fd := m.Descriptor().Fields().ByName(name); fd != nil && fd.Kind() == protoreflect.StringKind && !fd.IsList() {
			m.Set(fd, protoreflect.ValueOfString(marker))
			return
		}
	}
}

func getMarker(msg proto.Message) string {
	m := msg.ProtoReflect()
	for _, name := range []protoreflect.Name{"string_value", "title", "filename", "page", "content_type", "name"} {
		if fd := m.Descriptor().Fields().ByName(name); fd != nil && fd.Kind() == protoreflect.StringKind && !fd.IsList() {
			return m.Get(fd).String()
		}
	}
	return ""
}

var refJSON = protojson.MarshalOptions{}
var refJSONUn = protojson.UnmarshalOptions{}

// jsonCarriable reports whether the reference JSON codec can carry msg faithfully.
func jsonCarriable(msg proto.Message) bool {
	data, err := refJSON.Marshal(msg)
	if err != nil {
		return false
	}
	back := msg.ProtoReflect().New().Interface()
	if err := refJSONUn.Unmarshal(data, back); err != nil {
		return false
	}
	return proto.Equal(msg, back)
}

func protoCarriable(msg proto.Message) bool {
	_, err := proto.Marshal(msg)
	return err == nil
}
