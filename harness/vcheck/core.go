package main

import (
	"crypto/sha256"
	"encoding/hex"
	"encoding/json"
	"fmt"
	"hash/fnv"
	"math/rand/v2"
	"os"
	"path/filepath"
	"runtime"
	"runtime/debug"
	"sort"
	"strings"
	"sync"
	"sync/atomic"
	"time"
)

// ---------------------------------------------------------------------------
// Property registry
// ---------------------------------------------------------------------------

// Property is one check: a PRNG-determined list of cases plus an oracle that is
// evaluated inside Run. Case i is a pure function of (seed, property, i, tier).
type Property struct {
	ID        string
	Level     string // exploration | fault_enumeration
	Rule      string // how cases are generated / what is non-trivial
	Assume    []string
	N         func(tier string) int
	Run       func(c *Ctx, i int, r *rand.Rand)
	Setup     func(c *Ctx)          // optional, once before the cases
	Finish    func(c *Ctx)          // optional, once after the cases (coverage minima, aggregate oracles)
	Serial    bool                  // run cases sequentially in one goroutine
	Workers   int                   // override worker count
	Minima    map[string]int        // coverage counters that must reach a minimum on quick tier, else inconclusive
	MinimaFor func(tier string) map[string]int
}

var registry = map[string]*Property{}

func register(p *Property) { registry[p.ID] = p }

// ---------------------------------------------------------------------------
// Context
// ---------------------------------------------------------------------------

type Violation struct {
	Property  string `json:"property"`
	Tier      string `json:"tier"`
	Seed      int64  `json:"seed"`
	Case      int    `json:"case"`
	Signature string `json:"signature"`
	Detail    string `json:"detail"`
}

type Ctx struct {
	Prop    *Property
	Tier    string
	Seed    int64
	Verbose bool

	mu         sync.Mutex
	counters   map[string]int64
	nontrivial map[uint64]struct{}
	samples    []any
	viol       map[string]*Violation // by signature (first witness kept)
	violCount  map[string]int
	known      map[string]int
	evals      atomic.Int64
	inconcl    []string
	extra      map[string]any
	curCase    atomic.Int64
}

func newCtx(p *Property, tier string, seed int64) *Ctx {
	return &Ctx{Prop: p, Tier: tier, Seed: seed,
		counters: map[string]int64{}, nontrivial: map[uint64]struct{}{},
		viol: map[string]*Violation{}, violCount: map[string]int{}, known: map[string]int{},
		extra: map[string]any{}}
}

func (c *Ctx) Thorough() bool { return c.Tier == "thorough" }

// Count increments a coverage counter.
func (c *Ctx) Count(key string) { c.CountN(key, 1) }
func (c *Ctx) CountN(key string, n int64) {
	c.mu.Lock()
	c.counters[key] += n
	c.mu.Unlock()
}
func (c *Ctx) Counter(key string) int64 {
	c.mu.Lock()
	defer c.mu.Unlock()
	return c.counters[key]
}

// Eval records one executed evaluation (an execution observed by an oracle).
func (c *Ctx) Eval() { c.evals.Add(1) }

// Nontrivial records a distinct non-trivial case, identified by key.
func (c *Ctx) Nontrivial(key string) {
	h := fnv.New64a()
	h.Write([]byte(key))
	v := h.Sum64()
	c.mu.Lock()
	c.nontrivial[v] = struct{}{}
	c.mu.Unlock()
}

// Sample keeps up to 6 written-out cases for the evidence file.
func (c *Ctx) Sample(v any) {
	c.mu.Lock()
	if len(c.samples) < 6 {
		c.samples = append(c.samples, v)
	}
	c.mu.Unlock()
}

func (c *Ctx) SetExtra(k string, v any) {
	c.mu.Lock()
	c.extra[k] = v
	c.mu.Unlock()
}

func (c *Ctx) Inconclusive(reason string) {
	c.mu.Lock()
	c.inconcl = append(c.inconcl, reason)
	c.mu.Unlock()
}

// Violate reports a refutation. sig is "clause/categorical features" (never payload data).
func (c *Ctx) Violate(caseIdx int, sig, detail string) {
	full := c.Prop.ID + "/" + sig
	c.mu.Lock()
	defer c.mu.Unlock()
	if knownFindings[full] {
		c.known[full]++
		return
	}
	c.violCount[full]++
	if _, ok := c.viol[full]; !ok {
		if len(detail) > 6000 {
			detail = detail[:6000] + "...(truncated)"
		}
		c.viol[full] = &Violation{Property: c.Prop.ID, Tier: c.Tier, Seed: c.Seed, Case: caseIdx, Signature: full, Detail: detail}
	}
}

func (c *Ctx) Logf(format string, args ...any) {
	if c.Verbose {
		fmt.Printf(format+"\n", args...)
	}
}

// ---------------------------------------------------------------------------
// Known findings (committed file, never written at run time)
// ---------------------------------------------------------------------------

type knownFile struct {
	Findings []struct {
		Property  string `json:"property"`
		Signature string `json:"signature"`
		What      string `json:"what"`
	} `json:"findings"`
	Fixed []string `json:"fixed"`
}

var (
	knownFindings = map[string]bool{}
	knownWhat     = map[string]string{}
)

func loadKnown(dir string) {
	data, err := os.ReadFile(filepath.Join(dir, "known_findings.json"))
	if err != nil {
		return
	}
	var kf knownFile
	if err := json.Unmarshal(data, &kf); err != nil {
		fmt.Fprintf(os.Stderr, "known_findings.json: %v\n", err)
		os.Exit(2)
	}
	for _, f := range kf.Findings {
		knownFindings[f.Signature] = true
		knownWhat[f.Signature] = f.What
	}
}

// ---------------------------------------------------------------------------
// Runner
// ---------------------------------------------------------------------------

func caseRand(seed int64, prop string, i int) *rand.Rand {
	h := sha256.Sum256([]byte(fmt.Sprintf("%d/%s/%d", seed, prop, i)))
	var a, b uint64
	for k := 0; k < 8; k++ {
		a = a<<8 | uint64(h[k])
		b = b<<8 | uint64(h[8+k])
	}
	return rand.New(rand.NewPCG(a, b))
}

// safeRun executes one case; a panic escaping from the harness or the system is
// reported as a violation of the property being checked only by C11 (which has its
// own recover closer to ServeHTTP); everywhere else it is a harness failure and is
// surfaced as such so it cannot hide.
func (c *Ctx) runCase(i int) {
	defer func() {
		if r := recover(); r != nil {
			c.Violate(i, "harness-panic", fmt.Sprintf("panic in case %d: %v\n%s", i, r, debug.Stack()))
		}
	}()
	c.curCase.Store(int64(i))
	c.Prop.Run(c, i, caseRand(c.Seed, c.Prop.ID, i))
}

func runProperty(p *Property, tier string, seed int64, verifDir string, only int, verbose bool) int {
	start := time.Now()
	c := newCtx(p, tier, seed)
	c.Verbose = verbose
	n := p.N(tier)
	if only < 0 {
		// witnesses of earlier runs of this property are stale
		if old, err := filepath.Glob(filepath.Join(verifDir, "replays", p.ID+"-*.json")); err == nil {
			for _, f := range old {
				_ = os.Remove(f)
			}
		}
	}
	if p.Setup != nil {
		p.Setup(c)
	}
	workers := runtime.GOMAXPROCS(0)
	if p.Workers > 0 {
		workers = p.Workers
	}
	if p.Serial || only >= 0 {
		workers = 1
	}
	// Watchdog: wall clock is only a liveness guard, never a verdict on its own.
	var lastProgress atomic.Int64
	lastProgress.Store(time.Now().UnixNano())
	done := make(chan struct{})
	go func() {
		t := time.NewTicker(1 * time.Second)
		defer t.Stop()
		for {
			select {
			case <-done:
				return
			case <-t.C:
				var ms runtime.MemStats
				runtime.ReadMemStats(&ms)
				if ms.Sys > 12<<30 {
					fmt.Printf("INCONCLUSIVE property=%s reason=memory guard: process reserved %d MiB while running case %d (and up to %d neighbours)\n", p.ID, ms.Sys>>20, c.curCase.Load(), workers)
					os.Exit(2)
				}
				if time.Since(time.Unix(0, lastProgress.Load())) > 420*time.Second {
					buf := make([]byte, 1<<20)
					buf = buf[:runtime.Stack(buf, true)]
					dump := filepath.Join(verifDir, "build", "run", p.ID+"-stall.txt")
					_ = os.MkdirAll(filepath.Dir(dump), 0o755)
					_ = os.WriteFile(dump, buf, 0o644)
					fmt.Printf("INCONCLUSIVE property=%s reason=watchdog: no case completed for 420s (last case %d, goroutine dump %s)\n", p.ID, c.curCase.Load(), dump)
					os.Exit(2)
				}
			}
		}
	}()
	if only >= 0 {
		c.runCase(only)
	} else if workers == 1 {
		for i := 0; i < n; i++ {
			c.runCase(i)
			lastProgress.Store(time.Now().UnixNano())
		}
	} else {
		var next atomic.Int64
		var wg sync.WaitGroup
		for w := 0; w < workers; w++ {
			wg.Add(1)
			go func() {
				defer wg.Done()
				for {
					i := int(next.Add(1)) - 1
					if i >= n {
						return
					}
					c.runCase(i)
					lastProgress.Store(time.Now().UnixNano())
				}
			}()
		}
		wg.Wait()
	}
	if p.Finish != nil && only < 0 {
		p.Finish(c)
	}
	close(done)
	if only < 0 {
		minima := p.Minima
		if p.MinimaFor != nil {
			minima = p.MinimaFor(tier)
		}
		for k, min := range minima {
			if c.counters[k] < int64(min) {
				c.Inconclusive(fmt.Sprintf("coverage minimum not met: %s=%d < %d", k, c.counters[k], min))
			}
		}
	}
	wall := time.Since(start).Seconds()
	return c.finish(verifDir, n, wall, only >= 0)
}

func (c *Ctx) finish(verifDir string, n int, wall float64, replay bool) int {
	p := c.Prop
	// known findings
	var knownSigs []string
	for s := range c.known {
		knownSigs = append(knownSigs, s)
	}
	sort.Strings(knownSigs)
	for _, s := range knownSigs {
		fmt.Printf("KNOWN-FINDING: property=%s %s — %s (%d occurrences this run)\n", p.ID, s, knownWhat[s], c.known[s])
	}
	var sigs []string
	for s := range c.viol {
		sigs = append(sigs, s)
	}
	sort.Strings(sigs)
	var paths []string
	for _, s := range sigs {
		v := c.viol[s]
		h := sha256.Sum256([]byte(s))
		name := fmt.Sprintf("%s-%s-s%d-c%d.json", p.ID, hex.EncodeToString(h[:4]), c.Seed, v.Case)
		path := filepath.Join(verifDir, "replays", name)
		_ = os.MkdirAll(filepath.Dir(path), 0o755)
		data, _ := json.MarshalIndent(v, "", " ")
		_ = os.WriteFile(path, data, 0o644)
		paths = append(paths, path)
		fmt.Printf("VIOLATION property=%s replay=%s\n", p.ID, path)
		fmt.Printf("  signature=%s occurrences=%d\n", s, c.violCount[s])
		d := v.Detail
		if !c.Verbose && len(d) > 1500 {
			d = d[:1500] + "..."
		}
		fmt.Printf("  %s\n", strings.ReplaceAll(d, "\n", "\n  "))
	}
	if !replay {
		c.writeEvidence(verifDir, n, wall, len(sigs))
	}
	if len(sigs) > 0 {
		return 1
	}
	if len(c.inconcl) > 0 {
		for _, r := range c.inconcl {
			fmt.Printf("INCONCLUSIVE property=%s reason=%s\n", p.ID, r)
		}
		return 2
	}
	fmt.Printf("HELD property=%s tier=%s seed=%d evaluations=%d distinct_nontrivial=%d wall=%.1fs\n",
		p.ID, c.Tier, c.Seed, c.evals.Load(), len(c.nontrivial), wall)
	return 0
}

func (c *Ctx) writeEvidence(verifDir string, n int, wall float64, nviol int) {
	p := c.Prop
	cov := map[string]any{
		"evaluations":         c.evals.Load(),
		"distinct_nontrivial": len(c.nontrivial),
		"rule":                p.Rule,
		"samples":             c.samples,
		"cases":               n,
		"counters":            c.counters,
	}
	if len(c.samples) == 0 {
		cov["samples"] = []any{"(no sample recorded)"}
	}
	for k, v := range c.extra {
		cov[k] = v
	}
	known := map[string]int{}
	for k, v := range c.known {
		known[k] = v
	}
	cov["known_finding_occurrences"] = known
	assume := p.Assume
	if assume == nil {
		assume = []string{}
	}
	ev := map[string]any{
		"property_id": p.ID,
		"tier":        c.Tier,
		"seed":        c.Seed,
		"level":       p.Level,
		"coverage":    cov,
		"assumptions": assume,
		"wall_s":      wall,
		"violations":  nviol,
	}
	if len(c.inconcl) > 0 {
		ev["inconclusive"] = c.inconcl
	}
	data, err := json.MarshalIndent(ev, "", " ")
	if err != nil {
		fmt.Fprintf(os.Stderr, "evidence marshal: %v\n", err)
		return
	}
	path := filepath.Join(verifDir, "evidence", p.ID+".json")
	_ = os.MkdirAll(filepath.Dir(path), 0o755)
	_ = os.WriteFile(path, data, 0o644)
}

// helpers ---------------------------------------------------------------------

func pick[T any](r *rand.Rand, xs []T) T { return xs[r.IntN(len(xs))] }

func chance(r *rand.Rand, pct int) bool { return r.IntN(100) < pct }

func tierN(tier string, quick, thorough int) int {
	if tier == "thorough" {
		return thorough
	}
	return quick
}
