package main

import (
	"bytes"
	"fmt"
	"io"
	"math/rand/v2"
	"net/http"
	"net/http/httptest"
	"sync"

	"connectrpc.com/vanguard"
	"google.golang.org/protobuf/encoding/protowire"
	"google.golang.org/protobuf/proto"
	"google.golang.org/protobuf/reflect/protodesc"
	"google.golang.org/protobuf/reflect/protoreflect"
	"google.golang.org/protobuf/reflect/protoregistry"
	"google.golang.org/protobuf/types/descriptorpb"
)

// ---- extension ranges --------------------------------------------------------------------
//
// A proto2 schema whose messages declare an extension range, loaded dynamically (it exists in no generated code). It is
// registered twice: once with the resolver services from generated code use (protoregistry.GlobalTypes) and once with
// the default the library picks for a descriptor that is not in the global registry. Neither knows any extension of
// these messages, so an extension field in a payload is an unknown field to both and both must treat it alike.

var (
	c20ExtOnce sync.Once
	c20ExtSvc  protoreflect.ServiceDescriptor
	c20ExtErr  error
	c20ExtMu   sync.Mutex
	c20ExtTc   = map[string]*vanguard.Transcoder{}
)

func c20ExtSchema() (protoreflect.ServiceDescriptor, error) {
	c20ExtOnce.Do(func() {
		str := func(n string, num int32) *descriptorpb.FieldDescriptorProto {
			return &descriptorpb.FieldDescriptorProto{Name: proto.String(n), JsonName: proto.String(n), Number: proto.Int32(num),
				Label: descriptorpb.FieldDescriptorProto_LABEL_OPTIONAL.Enum(), Type: descriptorpb.FieldDescriptorProto_TYPE_STRING.Enum()}
		}
		msg := func(n string) *descriptorpb.DescriptorProto {
			return &descriptorpb.DescriptorProto{Name: proto.String(n), Field: []*descriptorpb.FieldDescriptorProto{str("name", 1)},
				ExtensionRange: []*descriptorpb.DescriptorProto_ExtensionRange{{Start: proto.Int32(100), End: proto.Int32(200)}}}
		}
		fdp := &descriptorpb.FileDescriptorProto{Name: proto.String("verif/ext/v1/ext.proto"), Package: proto.String("verif.ext.v1"), Syntax: proto.String("proto2"),
			MessageType: []*descriptorpb.DescriptorProto{msg("Req"), msg("Resp")},
			Service: []*descriptorpb.ServiceDescriptorProto{{Name: proto.String("ExtService"), Method: []*descriptorpb.MethodDescriptorProto{{
				Name: proto.String("Echo"), InputType: proto.String(".verif.ext.v1.Req"), OutputType: proto.String(".verif.ext.v1.Resp")}}}}}
		fd, err := protodesc.NewFile(fdp, protoregistry.GlobalFiles)
		if err != nil {
			c20ExtErr = err
			return
		}
		c20ExtSvc = fd.Services().ByName("ExtService")
	})
	return c20ExtSvc, c20ExtErr
}

func c20ExtTranscoder(global bool, codec string, h http.Handler) (*vanguard.Transcoder, error) {
	svc, err := c20ExtSchema()
	if err != nil {
		return nil, err
	}
	opts := []vanguard.ServiceOption{vanguard.WithTargetProtocols(vanguard.ProtocolConnect), vanguard.WithTargetCodecs(codec), vanguard.WithNoTargetCompression()}
	if global {
		opts = append(opts, vanguard.WithTypeResolver(protoregistry.GlobalTypes))
	}
	return vanguard.NewTranscoder([]*vanguard.Service{vanguard.NewServiceWithSchema(svc, h, opts...)})
}

type c20ExtBackend struct {
	ct    string
	resp  []byte
	calls int
	seen  []byte
	seenCT string
}

func (b *c20ExtBackend) ServeHTTP(w http.ResponseWriter, r *http.Request) {
	b.calls++
	b.seen, _ = io.ReadAll(r.Body)
	b.seenCT = r.Header.Get("Content-Type")
	w.Header().Set("Content-Type", b.ct)
	_, _ = w.Write(b.resp)
}

type c20ExtView struct {
	Panic  string
	Status int
	CT     string
	Body   string
	Calls  int
	Seen   string
	SeenCT string
}

func c20ExtensionLeg(c *Ctx, i int, r *rand.Rand) {
	if _, err := c20ExtSchema(); err != nil {
		c.Violate(i, "harness/ext-schema", err.Error())
		return
	}
	name := pick(r, stringPool)
	// payloads in both codecs; the extension (a field number inside the declared range / a "[full.name]" key) is one
	// that nobody defines
	extNum := protowire.Number(100 + r.IntN(100))
	withExt := func(codec string, ext bool) []byte {
		if codec == "proto" {
			b := protowire.AppendTag(nil, 1, protowire.BytesType)
			b = protowire.AppendString(b, name)
			if ext {
				switch r.IntN(3) {
				case 0:
					b = protowire.AppendVarint(protowire.AppendTag(b, extNum, protowire.VarintType), r.Uint64())
				case 1:
					b = protowire.AppendString(protowire.AppendTag(b, extNum, protowire.BytesType), "ext-value")
				default:
					b = protowire.AppendFixed32(protowire.AppendTag(b, extNum, protowire.Fixed32Type), r.Uint32())
				}
			}
			return b
		}
		if ext {
			return []byte(fmt.Sprintf(`{"name":%q,"[verif.ext.v1.%s]":%s}`, name, pick(r, []string{"no_such_extension", "Req.tag", "x"}), pick(r, []string{"1", `"v"`, "{}", "null"})))
		}
		return []byte(fmt.Sprintf(`{"name":%q}`, name))
	}
	clientCodec := pick(r, []string{"proto", "json"})
	targetCodec := map[string]string{"proto": "json", "json": "proto"}[clientCodec]
	if chance(r, 15) {
		targetCodec = clientCodec // pass-through control
	}
	reqExt, respExt := chance(r, 60), chance(r, 60)
	reqBody := withExt(clientCodec, reqExt)
	respBody := withExt(targetCodec, respExt)
	run := func(global bool) c20ExtView {
		be := &c20ExtBackend{ct: "application/" + targetCodec, resp: respBody}
		var v c20ExtView
		t, err := c20ExtTranscoder(global, targetCodec, be)
		if err != nil {
			v.Panic = "NewTranscoder: " + err.Error()
			return v
		}
		req := httptest.NewRequest("POST", "/verif.ext.v1.ExtService/Echo", bytes.NewReader(reqBody))
		req.Header.Set("Content-Type", "application/"+clientCodec)
		req.Header.Set("Connect-Protocol-Version", "1")
		rec := httptest.NewRecorder()
		func() {
			defer func() {
				if p := recover(); p != nil {
					v.Panic = fmt.Sprint(p)
				}
			}()
			t.ServeHTTP(rec, req)
		}()
		v.Status, v.CT, v.Body = rec.Code, rec.Header().Get("Content-Type"), rec.Body.String()
		v.Calls, v.Seen, v.SeenCT = be.calls, string(be.seen), be.seenCT
		return v
	}
	vg, vd := run(true), run(false)
	c.Eval()
	c.Eval()
	c.Count("pairs-compared")
	c.Count("variant:extension-range")
	if reqExt || respExt {
		c.Count("ext-pairs-with-unknown-extension")
	}
	if vg.Status == 200 && (reqExt || respExt) && clientCodec != targetCodec {
		c.Count("ext-pairs-re-encoded-ok")
	}
	if clientCodec != targetCodec {
		c.Nontrivial(fmt.Sprintf("ext|%s>%s|%v|%v", clientCodec, targetCodec, reqExt, respExt))
	}
	if i < 30 {
		c.Sample(map[string]any{"case": i, "leg": "extension-range", "client": clientCodec, "target": targetCodec, "req": string(reqBody), "resp": string(respBody), "global": fmt.Sprintf("%+v", vg)})
	}
	if vg != vd {
		c.Violate(i, "behaviour-differs/extension-range/"+clientCodec+"->"+targetCodec, fmt.Sprintf("proto2 schema with an extension range (100 to 199), loaded dynamically; request %q (%s), backend response %q (%s)\n"+
			"with WithTypeResolver(protoregistry.GlobalTypes): %+v\nwith the default resolver for a dynamic schema: %+v", reqBody, clientCodec, respBody, targetCodec, vg, vd))
	}
}
