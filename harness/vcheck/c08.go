package main

import (
	"bytes"
	"fmt"
	"io"
	"math/rand/v2"
	"reflect"
	"sort"

	"connectrpc.com/vanguard"

	"google.golang.org/protobuf/proto"
)

func init() {
	register(&Property{
		ID:    "C08",
		Level: "exploration",
		Rule: "metamorphic: base scenario b (PCG(seed,C08,b): config x form x method x map-free messages) is executed once with the reference segmentation " +
			"(one client read, 32 KiB handler read buffer, one Write per response) and then under V variants: client body chunkings (1 byte; every two-chunk split of the first 16 bytes; " +
			"envelope prefix split from payload; EOF delivered with the last bytes; random), handler read-buffer sizes 1..8,64,4096, handler write plans (1 byte; prefix/payload; " +
			"all frames in one Write; empty writes; Flush after each). Thorough adds the exhaustive tier: all 2^(n-1) compositions of request bodies and response streams with n<=13 bytes per adapter path. " +
			"oracle: bytes read by the handler and (status, headers, body, trailers) received by the client are identical to the reference run. " +
			"non-trivial = the variant splits inside an envelope prefix or inside a payload; distinct by (adapter paths, variant kind, split offset)",
		Assume: []string{"messages contain no map fields, so re-encoding is deterministic and byte equality is sound", "compress/gzip output is deterministic for equal input"},
		N:      func(t string) int { return tierN(t, 500, 5000) },
		Serial: true, // adapter paths are attributed to executions through the (global) point hook
		Setup: func(c *Ctx) {
			installCountingHooks(&vanguard.VerifHooks{Point: func(name string) {
				if c08Points != nil {
					*c08Points = append(*c08Points, name)
				}
			}})
		},
		Run:    runC08,
		Finish: func(c *Ctx) {
			pts := snapshotPoints()
			c.SetExtra("adapter_path_hits", pts)
			for _, p := range []string{"req:enveloping", "req:transforming", "req:skipbody", "resp:enveloping", "resp:transforming", "resp:buffered", "resp:errorWriter", "serve:passthrough"} {
				if pts[p] == 0 {
					c.Inconclusive("adapter path never reached: " + p)
				}
			}
		},
	})
}

type segVariant struct {
	name     string
	chunks   []int
	eofWith  bool
	readBuf  int
	writeSeg []int
	flush    bool
	empty    bool
	oneWrite bool
	zeroRead bool // the handler issues a Read with an empty buffer before every real one
}

var c08Points *[]string

type c08Result struct {
	points   []string
	reqMsgs  []proto.Message
	flags    []byte
	backBad  []string
	out      *Outcome
	invoked  int
	reqBody  []byte
	readErr  string
	status   int
	headers  map[string][]string
	body     []byte
	trailers map[string][]string
	panic    any
	kind     string
}

func c08Run(s *Scenario, raw []byte, v segVariant, r *rand.Rand) (*c08Result, *Exec, error) {
	creq := *s.Req
	creq.UseRawBody, creq.RawBody = true, raw
	script := *s.Script
	script.ReadBuf = v.readBuf
	script.WriteSeg = v.writeSeg
	script.FlushEach = v.flush
	script.EmptyWrites = v.empty
	script.OneWrite = v.oneWrite
	script.ZeroReads = v.zeroRead
	eo := &execOpts{Chunks: v.chunks}
	eo.PreRun = func(e *Exec) { e.Built.Body.EOFWith = v.eofWith }
	var pts []string
	c08Points = &pts
	e, err := runRPC(s.Cfg, &creq, &script, r, eo)
	c08Points = nil
	if err != nil {
		return nil, nil, err
	}
	res := &c08Result{points: pts, reqMsgs: e.Backend.Obs.Msgs, flags: e.Backend.Obs.FrameFlags, backBad: e.Backend.Obs.Bad, out: e.Out, invoked: e.Backend.Obs.Invocations, reqBody: e.Backend.Obs.Body, status: e.Rec.Code,
		headers: e.Rec.HeadersSent(), body: append([]byte(nil), e.Rec.Body.Bytes()...), trailers: e.Rec.Trailers(), panic: e.Panic, kind: e.Out.Kind}
	if e.Backend.Obs.ReadErr != nil {
		res.readErr = e.Backend.Obs.ReadErr.Error()
	}
	return res, e, nil
}

func hasPoint(pts []string, name string) bool {
	for _, p := range pts {
		if p == name {
			return true
		}
	}
	return false
}

func normHeaders(h map[string][]string, bytesComparable bool) map[string][]string {
	out := map[string][]string{}
	for k, v := range h {
		if k == "Content-Length" && !bytesComparable {
			continue // length of a randomly ordered (then compressed) binary re-encoding
		}
		vv := append([]string(nil), v...)
		if k == "Trailer" {
			sort.Strings(vv) // announced in map-iteration order
		}
		out[k] = vv
	}
	return out
}

func msgsEqual(a, b []proto.Message) bool {
	if len(a) != len(b) {
		return false
	}
	for i := range a {
		if (a[i] == nil) != (b[i] == nil) || (a[i] != nil && !proto.Equal(a[i], b[i])) {
			return false
		}
	}
	return true
}

// c08Diff compares a variant with the reference run. Decoded views are always compared; raw bytes only
// where they are forwarded or produced deterministically (re-framing and pass-through paths, JSON
// re-encoding): binary re-encoding of dynamic messages orders fields randomly per call.
func c08Diff(ref, got *c08Result, reqBytes, respBytes bool) string {
	switch {
	case got.panic != nil:
		return fmt.Sprintf("panic: %v", got.panic)
	case ref.invoked != got.invoked:
		return fmt.Sprintf("backend invocations %d vs %d", ref.invoked, got.invoked)
	case ref.readErr != got.readErr:
		return fmt.Sprintf("handler read error %q vs %q", ref.readErr, got.readErr)
	case !reflect.DeepEqual(ref.flags, got.flags):
		return fmt.Sprintf("request frame flags seen by the handler %v vs %v (bodies %q vs %q)", ref.flags, got.flags, clip(ref.reqBody, 80), clip(got.reqBody, 80))
	case !msgsEqual(ref.reqMsgs, got.reqMsgs):
		return fmt.Sprintf("request messages decoded by the handler differ (%d vs %d messages; bodies %q vs %q)", len(ref.reqMsgs), len(got.reqMsgs), clip(ref.reqBody, 80), clip(got.reqBody, 80))
	case !reflect.DeepEqual(ref.backBad, got.backBad):
		return fmt.Sprintf("request validity %v vs %v (bodies %q vs %q)", ref.backBad, got.backBad, clip(ref.reqBody, 80), clip(got.reqBody, 80))
	case reqBytes && !bytes.Equal(ref.reqBody, got.reqBody):
		return fmt.Sprintf("bytes read by the handler differ: reference %d bytes %q, variant %d bytes %q", len(ref.reqBody), clip(ref.reqBody, 80), len(got.reqBody), clip(got.reqBody, 80))
	case ref.status != got.status:
		return fmt.Sprintf("status %d vs %d", ref.status, got.status)
	case !reflect.DeepEqual(normHeaders(ref.headers, respBytes), normHeaders(got.headers, respBytes)):
		return fmt.Sprintf("headers %v vs %v", ref.headers, got.headers)
	case !reflect.DeepEqual(ref.trailers, got.trailers):
		return fmt.Sprintf("trailers %v vs %v", ref.trailers, got.trailers)
	case ref.out.Kind != got.out.Kind || ref.out.Code != got.out.Code || ref.out.Msg != got.out.Msg || !reflect.DeepEqual(ref.out.Details, got.out.Details):
		return fmt.Sprintf("outcome %s vs %s", ref.out.Summary(), got.out.Summary())
	case !reflect.DeepEqual(ref.out.Malformed, got.out.Malformed):
		return fmt.Sprintf("response validity %v vs %v", ref.out.Malformed, got.out.Malformed)
	case !msgsEqual(ref.out.Msgs, got.out.Msgs):
		return fmt.Sprintf("response messages decoded by the client differ (%d vs %d)", len(ref.out.Msgs), len(got.out.Msgs))
	case respBytes && !bytes.Equal(ref.body, got.body):
		return fmt.Sprintf("response body differs: reference %d bytes %q, variant %d bytes %q", len(ref.body), clip(ref.body, 80), len(got.body), clip(got.body, 80))
	}
	return ""
}

func c08Variants(r *rand.Rand, reqLen int) []segVariant {
	vs := []segVariant{
		{name: "chunks-1byte", chunks: repeatInt(1, reqLen+1)},
		{name: "eof-with-data", eofWith: true},
		{name: "chunks-prefix-payload", chunks: []int{5, 1 << 20, 5, 1 << 20, 5, 1 << 20}},
		{name: "chunks-4-1", chunks: []int{4, 1, 3, 2, 1 << 20}},
		{name: "write-1byte", writeSeg: repeatInt(1, 4096)},
		{name: "write-prefix-payload", writeSeg: []int{5, 1 << 20, 5, 1 << 20, 5, 1 << 20, 5, 1 << 20}},
		{name: "write-4-1", writeSeg: []int{4, 1, 2, 3, 1 << 20}},
		{name: "write-all-in-one", oneWrite: true},
		{name: "write-empty+flush", empty: true, flush: true, writeSeg: []int{3, 7, 1, 1 << 20}},
		// Read results of (0, nil) - "nothing happened" - from the client's body, and reads into an empty buffer by the handler
		{name: "chunks-with-zero-count-reads", chunks: []int{-1, 3, -1, -1, 2, -1, 7, -1, 1 << 20, -1, 1 << 20, -1}},
		{name: "handler-empty-buffer-reads", zeroRead: true},
		{name: "handler-empty-buffer-reads-small", zeroRead: true, readBuf: 3},
	}
	for _, n := range []int{1, 2, 3, 4, 5, 6, 7, 8, 64, 4096} {
		vs = append(vs, segVariant{name: fmt.Sprintf("readbuf-%d", n), readBuf: n})
	}
	for k := 1; k <= 16 && k < reqLen; k++ {
		vs = append(vs, segVariant{name: fmt.Sprintf("split-at-%d", k), chunks: []int{k, 1 << 20}})
	}
	for k := 0; k < 6; k++ {
		var ch, ws []int
		for j := 0; j < 30; j++ {
			ch = append(ch, 1+r.IntN(9))
			ws = append(ws, 1+r.IntN(9))
		}
		vs = append(vs, segVariant{name: "random", chunks: ch, readBuf: 1 + r.IntN(12), writeSeg: ws, flush: chance(r, 50), empty: chance(r, 30), eofWith: chance(r, 30)})
	}
	return vs
}

func repeatInt(v, n int) []int {
	out := make([]int, n)
	for i := range out {
		out[i] = v
	}
	return out
}

func c08Base(r *rand.Rand, tiny bool) (*Scenario, []byte, error) {
	for {
		s := genScenario(r, ScenOpts{Variety: chance(r, 30)}, "c08")
		// deterministic re-encoding: regenerate messages without maps (and small)
		gopts := genOpts{noMaps: true, density: pick(r, []int{2, 5, 15})}
		if tiny {
			gopts.density = 1
		}
		if s.Req.Form != FREST && s.Target != "rest" {
			for k := range s.Req.Msgs {
				s.Req.Msgs[k] = genMessage(r, s.Req.M.In(), gopts)
			}
		}
		for k := range s.Script.Msgs {
			s.Script.Msgs[k] = genMessage(r, s.Req.M.Out(), gopts)
		}
		if s.Script.Bare != nil && len(s.Script.Bare.Body) == 0 {
			s.Script.Bare.Body = []byte("oops")
		}
		s.Script.WriteSeg, s.Script.EmptyWrites, s.Script.FlushEach, s.Script.ReadBuf = nil, false, false, 0
		hasMap := false
		for _, m := range append(append([]proto.Message{}, s.Req.Msgs...), s.Script.Msgs...) {
			hasMap = hasMap || containsMap(m)
		}
		if hasMap {
			continue
		}
		built, err := s.Req.Build(r)
		if err != nil {
			return nil, nil, err
		}
		return s, built.Raw, nil
	}
}

func containsMap(m proto.Message) bool {
	data, _ := proto.Marshal(m)
	for i := 0; i < 3; i++ {
		d2, _ := proto.Marshal(m)
		if !bytes.Equal(data, d2) {
			return true
		}
	}
	return false
}

func runC08(c *Ctx, i int, r *rand.Rand) {
	exhaustive := c.Thorough() && i%10 == 0
	s, raw, err := c08Base(r, exhaustive)
	if err != nil {
		c.Violate(i, "harness/build", err.Error())
		return
	}
	ref, refExec, err := c08Run(s, raw, segVariant{name: "reference"}, r)
	if err != nil {
		c.Violate(i, "harness/build", err.Error())
		return
	}
	c.Eval()
	if ref.panic != nil {
		c.Count("reference-panic")
		return
	}
	// the reference itself must be reproducible, otherwise byte comparison is unsound for this base
	// raw bytes are comparable where nothing is re-encoded in binary form
	reqBytes := hasPoint(ref.points, "req:enveloping") || hasPoint(ref.points, "serve:passthrough") || refExec.Backend.Obs.Codec == "json"
	respBytes := hasPoint(ref.points, "resp:enveloping") || hasPoint(ref.points, "serve:passthrough") || hasPoint(ref.points, "resp:errorWriter") || hasPoint(ref.points, "resp:noBody") || s.Req.Codec == "json"
	c.Count(fmt.Sprintf("bytes-compared:req=%v,resp=%v", reqBytes, respBytes))
	for _, p := range ref.points {
		if len(p) > 4 && (p[:4] == "req:" || p[:5] == "resp:" || p[:6] == "serve:") {
			c.Count("path:" + p)
		}
	}
	if i < 2 {
		c.Sample(map[string]any{"base": i, "cell": s.Cell(), "describe": refExec.Describe()})
	}
	variants := c08Variants(r, len(raw))
	if exhaustive {
		variants = append(variants, c08Compositions(len(raw), len(ref.body))...)
	}
	for _, v := range variants {
		got, e, err := c08Run(s, raw, v, r)
		if err != nil {
			continue
		}
		c.Eval()
		c.Count("variant:" + v.name)
		c.Nontrivial(fmt.Sprintf("%d|%s|%v|%d", i, v.name, v.chunks, v.readBuf))
		if d := c08Diff(ref, got, reqBytes, respBytes); d != "" {
			kind := v.name
			if len(kind) > 9 && kind[:9] == "split-at-" {
				kind = "split"
			}
			if len(kind) > 4 && kind[:4] == "comp" {
				kind = "composition"
			}
			c.Violate(i, fmt.Sprintf("segmentation-dependent/%s/%s", kind, adapterFeat(s, e)), fmt.Sprintf("variant %s (chunks=%v eofWith=%v readBuf=%d writeSeg=%v oneWrite=%v): %s\nreference run:\n%s\nvariant run:\n%s",
				v.name, clipInts(v.chunks), v.eofWith, v.readBuf, clipInts(v.writeSeg), v.oneWrite, d, refExec.Describe(), e.Describe()))
			return
		}
	}
}

func clipInts(x []int) []int {
	if len(x) > 24 {
		return x[:24]
	}
	return x
}

func adapterFeat(s *Scenario, e *Exec) string {
	return fmt.Sprintf("%s->%s", s.Req.Form, orNone(e.Backend.Obs.target()))
}

// c08Compositions: every composition of n into chunk sizes, for request bodies and response streams of <= 13 bytes.
func c08Compositions(reqLen, respLen int) []segVariant {
	var out []segVariant
	if reqLen >= 2 && reqLen <= 13 {
		for mask := 0; mask < 1<<(reqLen-1); mask++ {
			out = append(out, segVariant{name: "comp-req", chunks: compositionFromMask(mask, reqLen)})
		}
	}
	if respLen >= 2 && respLen <= 13 {
		for mask := 0; mask < 1<<(respLen-1); mask++ {
			out = append(out, segVariant{name: "comp-resp", writeSeg: compositionFromMask(mask, respLen), oneWrite: true})
		}
	}
	return out
}

func compositionFromMask(mask, n int) []int {
	var out []int
	run := 1
	for b := 0; b < n-1; b++ {
		if mask&(1<<b) != 0 {
			out = append(out, run)
			run = 1
		} else {
			run++
		}
	}
	return append(out, run)
}

var _ = io.EOF
