package main

import (
	"context"
	"fmt"
	"math/rand/v2"
	"net/http"
	"sort"
	"strings"
	"sync"

	"connectrpc.com/vanguard"
	"google.golang.org/genproto/googleapis/api/annotations"
	"google.golang.org/protobuf/proto"
	"google.golang.org/protobuf/reflect/protoreflect"
)

func init() {
	register(&Property{
		ID:    "C06",
		Level: "exploration",
		Rule: "case i = one generated route table (1..7 rules over 8 methods; segments from a 4-literal alphabet, *, **, {v}, {v=lit/*}, {v=**}, nested field paths, verbs, all HTTP method kinds incl. custom and '*', " +
			"additional_bindings; overlapping on purpose; registered through annotations or WithRules) that NewTranscoder accepts, probed with ~40 request paths derived from its templates by instantiating wildcards with " +
			"hostile segments (%25 %2F %2f %3A %41 + space ~ unicode . ..) and by perturbation (trailing slash, missing/extra segment, wrong/missing/extra verb) x the HTTP methods of the table plus others, plus RPC-style paths. " +
			"oracle: reference template matcher computing the SET M of (binding, captures) matching the raw path: dispatched(m,v) => some (b,c) in M with b.method=m, b.httpMethod in {request's, *}, decode-once(c)=v; M empty => 404; " +
			"one template (or exactly one all-literal one) => its binding for the method, else 405 with non-empty Allow within the template's methods; RPC path => exactly that method; and identical outcomes under rule permutation and repeated construction. " +
			"Ambiguous inputs (empty segments facing wildcards, several raw ':' in the last segment) only get the first and the last clause. non-trivial = M non-empty and the path contains an escape or templates overlap; distinct by (table, path, method)",
		Assume: []string{"'**' matching zero segments is treated as ambiguous (the repository's own tests require at least a trailing slash)", "literal positions are written in the template's canonical text"},
		N:      func(t string) int { return tierN(t, 1500, 30000) },
		Run:    runC06,
		MinimaFor: func(t string) map[string]int {
			return map[string]int{"dispatched": tierN(t, 10000, 200000), "not-found": tierN(t, 5000, 100000), "method-not-allowed": tierN(t, 2000, 40000), "overlap-probed": tierN(t, 3000, 60000)}
		},
	})
}

var (
	routerOnce    sync.Once
	routerSvc     protoreflect.ServiceDescriptor
	routerMethods []*MethodInfo
)

func routerService() (protoreflect.ServiceDescriptor, []*MethodInfo) {
	routerOnce.Do(func() {
		var ms []kitchenMethod
		for k := 0; k < 8; k++ {
			ms = append(ms, kitchenMethod{name: fmt.Sprintf("R%d", k), in: tParam, out: tParam})
		}
		fd := buildServiceFile("verif/v1/router.proto", "verif.v1", "Router", ms)
		routerSvc = fd.Services().Get(0)
		_, routerMethods = methodInfos(routerSvc)
	})
	return routerSvc, routerMethods
}

var c06Literals = []string{"a", "b", "c", "v1"}
var c06Vars = []string{"string_value", "recursive.string_value", "recursive.recursive.string_value"}
var c06Pieces = []string{"x", "a", "b", "zz", "%25", "%2F", "%2f", "a%2Fb", "%3A", "%41", "a%20b", "+", "~", "%E6%97%A5", ".", "..", "%C3%A9", "a%3Ab", "%2525", "v1", "*", "%2A", "1+1%3D2", "a+b%20c", "%2B+", "a:b%2Fc"}

func genTemplate(r *rand.Rand) string {
	n := 1 + r.IntN(4)
	var segs []string
	used := map[string]bool{}
	nextVar := func() string {
		for _, v := range c06Vars {
			if !used[v] && chance(r, 60) {
				used[v] = true
				return v
			}
		}
		return ""
	}
	for k := 0; k < n; k++ {
		last := k == n-1
		switch x := r.IntN(100); {
		case x < 50:
			segs = append(segs, pick(r, c06Literals))
		case x < 60:
			segs = append(segs, "*")
		case x < 80:
			if v := nextVar(); v != "" {
				segs = append(segs, "{"+v+"}")
			} else {
				segs = append(segs, "*")
			}
		case x < 90:
			if v := nextVar(); v != "" {
				segs = append(segs, "{"+v+"="+pick(r, c06Literals)+"/*}")
			} else {
				segs = append(segs, pick(r, c06Literals))
			}
		default:
			if last {
				switch r.IntN(3) {
				case 0:
					segs = append(segs, "**")
				case 1:
					if v := nextVar(); v != "" {
						segs = append(segs, "{"+v+"=**}")
					} else {
						segs = append(segs, "**")
					}
				default:
					if v := nextVar(); v != "" {
						segs = append(segs, "{"+v+"="+pick(r, c06Literals)+"/**}")
					} else {
						segs = append(segs, "**")
					}
				}
			} else {
				segs = append(segs, pick(r, c06Literals))
			}
		}
	}
	t := "/" + strings.Join(segs, "/")
	if chance(r, 25) {
		t += ":" + pick(r, []string{"do", "x"})
	}
	return t
}

func genRule(r *rand.Rand, selector string) *annotations.HttpRule {
	t := genTemplate(r)
	var rule *annotations.HttpRule
	switch r.IntN(8) {
	case 0, 1, 2:
		rule = ruleGet(t)
	case 3:
		rule = rulePost(t, "*")
	case 4:
		rule = rulePut(t, "*")
	case 5:
		rule = ruleDelete(t)
	case 6:
		rule = ruleCustom(pick(r, []string{"*", "LOCK", "HEAD"}), t, "")
	default:
		rule = rulePatch(t, "*")
	}
	rule.Selector = selector
	return rule
}

type routeTable struct {
	rules    []*annotations.HttpRule // one per (method, primary) with additional bindings attached
	bindings []*Binding
	viaRules bool
}

// patternKey identifies a template's matching pattern (variable names erased).
func patternKey(b *Binding) string {
	var sb strings.Builder
	for _, s := range b.Segs {
		switch s.Kind {
		case segLit:
			sb.WriteString("/" + s.Lit)
		case segStar:
			sb.WriteString("/*")
		default:
			sb.WriteString("/**")
		}
	}
	return sb.String() + ":" + b.Verb
}

func allLiteral(b *Binding) bool {
	for _, s := range b.Segs {
		if s.Kind != segLit {
			return false
		}
	}
	return true
}

func genRouteTable(r *rand.Rand) *routeTable {
	_, methods := routerService()
	rt := &routeTable{viaRules: chance(r, 50)}
	nrules := 1 + r.IntN(7)
	perm := r.Perm(len(methods))
	mi := 0
	for len(rt.rules) < nrules && mi < len(perm) {
		m := methods[perm[mi]]
		mi++
		rule := genRule(r, string(m.Desc.FullName()))
		for k, n := 0, pick(r, []int{0, 0, 1, 2}); k < n; k++ {
			ab := genRule(r, "")
			if chance(r, 40) { // same template, other HTTP method: shares the trie node
				_, tmpl := rulePattern(rule)
				switch r.IntN(3) {
				case 0:
					ab = ruleDelete(tmpl)
				case 1:
					ab = rulePut(tmpl, "*")
				default:
					ab = ruleGet(tmpl)
				}
			}
			rule.AdditionalBindings = append(rule.AdditionalBindings, ab)
		}
		rt.rules = append(rt.rules, rule)
	}
	return rt
}

func (rt *routeTable) methodFor(rule *annotations.HttpRule) *MethodInfo {
	_, methods := routerService()
	for _, m := range methods {
		if string(m.Desc.FullName()) == rule.Selector {
			return m
		}
	}
	return nil
}

// build constructs a transcoder for the table with the rules in the given order.
func (rt *routeTable) build(order []int) (*vanguard.Transcoder, error) {
	sd, _ := routerService()
	rules := make([]*annotations.HttpRule, len(order))
	for k, idx := range order {
		rules[k] = proto.Clone(rt.rules[idx]).(*annotations.HttpRule)
	}
	opts := []vanguard.ServiceOption{vanguard.WithTargetProtocols(vanguard.ProtocolConnect), vanguard.WithTargetCodecs("proto"), vanguard.WithNoTargetCompression()}
	if rt.viaRules {
		svc := vanguard.NewServiceWithSchema(sd, dispatcher, opts...)
		return vanguard.NewTranscoder([]*vanguard.Service{svc}, vanguard.WithRules(rules...))
	}
	// annotations on a freshly built descriptor; method order follows the rule order
	var ms []kitchenMethod
	seen := map[string]bool{}
	for _, rule := range rules {
		name := rule.Selector[strings.LastIndex(rule.Selector, ".")+1:]
		cp := proto.Clone(rule).(*annotations.HttpRule)
		cp.Selector = ""
		ms = append(ms, kitchenMethod{name: name, in: tParam, out: tParam, rule: cp})
		seen[name] = true
	}
	for k := 0; k < 8; k++ {
		if n := fmt.Sprintf("R%d", k); !seen[n] {
			ms = append(ms, kitchenMethod{name: n, in: tParam, out: tParam})
		}
	}
	fd := buildServiceFile("verif/v1/router.proto", "verif.v1", "Router", ms)
	svc := vanguard.NewServiceWithSchema(fd.Services().Get(0), dispatcher, opts...)
	return vanguard.NewTranscoder([]*vanguard.Service{svc})
}

type routeOutcome struct {
	status int
	method string // RPC path observed by the backend
	vars   string // rendering of the variable-bound fields
	allow  string
}

func (o routeOutcome) String() string {
	return fmt.Sprintf("status=%d method=%s vars=%s allow=%q", o.status, o.method, o.vars, o.allow)
}

type routeBackend struct {
	path string
	msg  proto.Message
	n    int
}

func (b *routeBackend) ServeHTTP(w http.ResponseWriter, r *http.Request) {
	b.n++
	b.path = r.URL.Path
	body := make([]byte, 0, 256)
	buf := make([]byte, 4096)
	for {
		k, err := r.Body.Read(buf)
		body = append(body, buf[:k]...)
		if err != nil {
			break
		}
	}
	m := newMsg(paramDesc())
	if err := proto.Unmarshal(body, m); err == nil {
		b.msg = m
	}
	w.Header().Set("Content-Type", "application/proto")
	w.WriteHeader(200)
}

func paramDesc() protoreflect.MessageDescriptor {
	_, ms := routerService()
	return ms[0].In()
}

func varsOf(msg proto.Message) string {
	if msg == nil {
		return "<undecodable>"
	}
	m := msg.ProtoReflect()
	var parts []string
	for _, p := range c06Vars {
		fields, _ := resolveFieldPathRef(m.Descriptor(), p)
		cur, fd, ok := getPath(m, fields)
		if ok && cur.Has(fd) {
			parts = append(parts, p+"="+fmt.Sprintf("%q", cur.Get(fd).String()))
		}
	}
	return strings.Join(parts, ",")
}

func routeProbe(t *vanguard.Transcoder, method, rawPath string, withBody bool) (routeOutcome, error) {
	var body []byte
	if withBody {
		body = []byte("{}")
	}
	sb := &ScriptBody{Data: body}
	req, err := newServerRequest(method, rawPath, sb)
	if err != nil {
		return routeOutcome{}, err
	}
	if withBody {
		req.Header.Set("Content-Type", "application/json")
	}
	req.ContentLength = int64(len(body))
	be := &routeBackend{}
	ctx := context.WithValue(context.Background(), ctxKey{}, http.Handler(be))
	rec := newRecorder()
	t.ServeHTTP(rec, req.WithContext(ctx))
	rec.Finish()
	out := routeOutcome{status: rec.Code, allow: rec.HeadersSent().Get("Allow")}
	if be.n > 0 {
		out.method = be.path
		out.vars = varsOf(be.msg)
	}
	if be.n > 1 {
		out.method += fmt.Sprintf(" (x%d)", be.n)
	}
	return out, nil
}

// expectedVars renders the captures of (b, caps) the way varsOf renders the message.
func expectedVars(b *Binding, caps []string) (string, bool) {
	vals := map[string]string{}
	for k, v := range b.Vars {
		multi := v.End == -1 || v.End-v.Start > 1
		d, err := unescOnce(caps[k], multi)
		if err != nil {
			return "", false
		}
		if multi {
			d = strings.ReplaceAll(d, "%2f", "%2F") // the escape that is kept may be re-cased
		}
		vals[v.FieldPath] = d
	}
	var parts []string
	for _, p := range c06Vars {
		if v, ok := vals[p]; ok && v != "" {
			parts = append(parts, p+"="+fmt.Sprintf("%q", v))
		}
	}
	return strings.Join(parts, ","), true
}

func instantiate(r *rand.Rand, b *Binding) string {
	var parts []string
	for _, s := range b.Segs {
		switch s.Kind {
		case segLit:
			parts = append(parts, s.Lit)
		case segStar:
			parts = append(parts, pick(r, c06Pieces))
		default:
			for k, n := 0, 1+r.IntN(3); k < n; k++ {
				parts = append(parts, pick(r, c06Pieces))
			}
		}
	}
	p := "/" + strings.Join(parts, "/")
	if b.Verb != "" {
		p += ":" + b.Verb
	}
	return p
}

func perturb(r *rand.Rand, p string) string {
	switch r.IntN(8) {
	case 0:
		return p + "/"
	case 1:
		return p + "/" + pick(r, c06Pieces)
	case 2:
		if i := strings.LastIndex(p, "/"); i > 0 {
			return p[:i]
		}
	case 3:
		return p + ":do"
	case 4:
		if i := strings.LastIndex(p, ":"); i > 0 {
			return p[:i]
		}
	case 5:
		if i := strings.LastIndex(p, ":"); i > 0 {
			return p[:i] + ":zz"
		}
	case 6:
		segs := strings.Split(p, "/")
		if len(segs) > 2 {
			k := 1 + r.IntN(len(segs)-1)
			segs[k] = pick(r, append(c06Pieces, c06Literals...))
			return strings.Join(segs, "/")
		}
	case 7:
		return strings.Replace(p, "/", "//", 1)
	}
	return p
}

func pathAmbiguous(p string) bool {
	segs := strings.Split(strings.TrimPrefix(p, "/"), "/")
	for _, s := range segs {
		if s == "" {
			return true
		}
	}
	return strings.Count(segs[len(segs)-1], ":") > 1
}

func runC06(c *Ctx, i int, r *rand.Rand) {
	var rt *routeTable
	var t0 *vanguard.Transcoder
	for tries := 0; tries < 30; tries++ {
		rt = genRouteTable(r)
		order := make([]int, len(rt.rules))
		for k := range order {
			order[k] = k
		}
		var err error
		t0, err = rt.build(order)
		if err == nil {
			break
		}
		c.Count("table-rejected")
		rt, t0 = nil, nil
	}
	if rt == nil {
		return
	}
	// reference bindings
	httpMethods := map[string]bool{"GET": true, "POST": true}
	for _, rule := range rt.rules {
		m := rt.methodFor(rule)
		for _, b := range bindingsFromRule(m.Desc, rule) {
			rt.bindings = append(rt.bindings, b)
			if b.HTTPMethod != "*" {
				httpMethods[b.HTTPMethod] = true
			}
		}
	}
	patterns := map[string]bool{}
	for _, b := range rt.bindings {
		patterns[patternKey(b)] = true
	}
	// permuted and re-constructed variants
	perm := r.Perm(len(rt.rules))
	t1, err1 := rt.build(perm)
	order := make([]int, len(rt.rules))
	for k := range order {
		order[k] = k
	}
	t2, err2 := rt.build(order)
	if err1 != nil || err2 != nil {
		c.Violate(i, "acceptance-depends-on-order", fmt.Sprintf("table accepted in one order but rejected in another: %v / %v\n%s", err1, err2, rt.describe()))
		return
	}
	var paths []string
	for _, b := range rt.bindings {
		for k := 0; k < 3; k++ {
			p := instantiate(r, b)
			paths = append(paths, p)
			if chance(r, 60) {
				paths = append(paths, perturb(r, p))
			}
		}
	}
	paths = append(paths, "/", "/a", "/a/b", "/v1", "/zz/zz/zz")
	var methodList []string
	for m := range httpMethods {
		methodList = append(methodList, m)
	}
	methodList = append(methodList, "OPTIONS")
	sort.Strings(methodList)
	if i < 2 {
		c.Sample(map[string]any{"table": i, "rules": rt.describe(), "paths": paths[:min(8, len(paths))]})
	}
	for _, p := range paths {
		// M over all HTTP methods
		type match struct {
			b    *Binding
			caps []string
		}
		var M, Mperm []match
		for _, b := range rt.bindings {
			if caps, ok := matchBinding(b, p); ok {
				M = append(M, match{b, caps})
			}
			if caps, ok := matchBindingMode(b, p, true); ok {
				Mperm = append(Mperm, match{b, caps})
			}
		}
		// readings the grammar leaves open (empty segments, '**' matching nothing, several ':') make the path ambiguous
		amb := pathAmbiguous(p) || len(Mperm) != len(M)
		mpat := map[string]bool{}
		for _, m := range M {
			mpat[patternKey(m.b)] = true
		}
		for _, hm := range methodList {
			if chance(r, 40) && len(methodList) > 3 {
				continue
			}
			withBody := false
			for _, m := range Mperm {
				if (m.b.HTTPMethod == hm || m.b.HTTPMethod == "*") && m.b.Body == "*" {
					withBody = true
				}
			}
			o0, err := routeProbe(t0, hm, p, withBody)
			if err != nil {
				break // request line does not parse
			}
			c.Eval()
			detail := func() string {
				var ms []string
				for _, m := range M {
					ms = append(ms, fmt.Sprintf("%s %s -> %s caps=%q", m.b.HTTPMethod, m.b.Template, m.b.Method.Name(), m.caps))
				}
				return fmt.Sprintf("request: %s %s\nobserved: %s\nreference matches M: %v\nambiguous=%v\n%s", hm, p, o0, ms, amb, rt.describe())
			}
			switch {
			case o0.method != "":
				c.Count("dispatched")
			case o0.status == 404:
				c.Count("not-found")
			case o0.status == 405:
				c.Count("method-not-allowed")
			default:
				c.Count(fmt.Sprintf("status-%d", o0.status))
			}
			if len(M) > 0 && (strings.Contains(p, "%") || len(mpat) > 1) {
				c.Nontrivial(fmt.Sprintf("%d|%s|%s", i, p, hm))
			}
			if len(mpat) > 1 {
				c.Count("overlap-probed")
			}
			// clause 6: order independence
			o1, _ := routeProbe(t1, hm, p, withBody)
			o2, _ := routeProbe(t2, hm, p, withBody)
			if o1.status != o0.status || o1.method != o0.method || o1.vars != o0.vars || o2.status != o0.status || o2.method != o0.method || o2.vars != o0.vars {
				c.Violate(i, "outcome-depends-on-registration-order", fmt.Sprintf("original order: %s\npermuted rules %v: %s\nrebuilt: %s\n%s", o0, perm, o1, o2, detail()))
				continue
			}
			// clause 1
			if o0.method != "" {
				ok := false
				for _, m := range Mperm {
					if "/"+string(m.b.Method.Parent().FullName())+"/"+string(m.b.Method.Name()) != o0.method {
						continue
					}
					if m.b.HTTPMethod != hm && m.b.HTTPMethod != "*" {
						continue
					}
					if ev, good := expectedVars(m.b, m.caps); good && (ev == o0.vars || o0.status != 200) {
						ok = true
						break
					}
				}
				if !ok {
					c.Violate(i, "dispatch-not-justified-by-a-matching-binding", detail())
					continue
				}
			}
			if amb {
				continue
			}
			// clause 2
			if len(M) == 0 {
				if o0.status != 404 || o0.method != "" {
					c.Violate(i, "no-template-matches-but-not-404", detail())
				}
				continue
			}
			// clauses 3 and 4
			var T string
			if len(mpat) == 1 {
				for k := range mpat {
					T = k
				}
			} else {
				nlit := 0
				for _, m := range M {
					if allLiteral(m.b) {
						if T != patternKey(m.b) {
							nlit++
						}
						T = patternKey(m.b)
					}
				}
				if nlit != 1 {
					continue // several wildcard templates: only clauses 1 and 6
				}
			}
			var want *Binding
			var star *Binding
			tm := map[string]bool{}
			for _, m := range M {
				if patternKey(m.b) != T {
					continue
				}
				tm[m.b.HTTPMethod] = true
				if m.b.HTTPMethod == hm {
					want = m.b
				}
				if m.b.HTTPMethod == "*" {
					star = m.b
				}
			}
			if want == nil {
				want = star
			}
			if want != nil {
				wm := "/" + string(want.Method.Parent().FullName()) + "/" + string(want.Method.Name())
				if o0.method != wm {
					c.Violate(i, "wrong-binding-for-single-template", fmt.Sprintf("expected dispatch to %s (%s %s)\n%s", wm, want.HTTPMethod, want.Template, detail()))
				}
				continue
			}
			if o0.status != 405 || o0.method != "" {
				c.Violate(i, "method-mismatch-not-405", detail())
				continue
			}
			if o0.allow == "" {
				c.Violate(i, "405-without-allow", detail())
				continue
			}
			for _, a := range strings.Split(o0.allow, ",") {
				if !tm[strings.TrimSpace(a)] {
					c.Violate(i, "allow-names-method-the-template-lacks", fmt.Sprintf("Allow: %s, template methods %v\n%s", o0.allow, tm, detail()))
				}
			}
		}
	}
	// clause 5: RPC-style paths
	_, methods := routerService()
	for _, m := range methods {
		o0, err := routeProbeRPC(t0, m.Path)
		if err != nil {
			continue
		}
		c.Eval()
		if o0.method != m.Path {
			c.Violate(i, "rpc-path-misrouted", fmt.Sprintf("POST %s (Connect unary) observed %s\n%s", m.Path, o0, rt.describe()))
		}
	}
}

func routeProbeRPC(t *vanguard.Transcoder, path string) (routeOutcome, error) {
	sb := &ScriptBody{}
	req, err := newServerRequest("POST", path, sb)
	if err != nil {
		return routeOutcome{}, err
	}
	req.Header.Set("Content-Type", "application/proto")
	req.Header.Set("Connect-Protocol-Version", "1")
	be := &routeBackend{}
	ctx := context.WithValue(context.Background(), ctxKey{}, http.Handler(be))
	rec := newRecorder()
	t.ServeHTTP(rec, req.WithContext(ctx))
	rec.Finish()
	out := routeOutcome{status: rec.Code}
	if be.n > 0 {
		out.method = be.path
	}
	return out, nil
}

func (rt *routeTable) describe() string {
	var sb strings.Builder
	fmt.Fprintf(&sb, "route table (via WithRules=%v):\n", rt.viaRules)
	for _, rule := range rt.rules {
		hm, t := rulePattern(rule)
		fmt.Fprintf(&sb, "  %s: %s %s", rule.Selector[strings.LastIndex(rule.Selector, ".")+1:], hm, t)
		for _, ab := range rule.AdditionalBindings {
			hm, t := rulePattern(ab)
			fmt.Fprintf(&sb, " | %s %s", hm, t)
		}
		sb.WriteString("\n")
	}
	return sb.String()
}
