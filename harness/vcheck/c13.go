package main

import (
	"bytes"
	"context"
	"fmt"
	"io"
	"math/rand/v2"
	"net/http"
	"reflect"
	"strings"
)

func init() {
	register(&Property{
		ID:    "C13",
		Level: "exploration",
		Rule: "case i: either (a) a request whose (protocol, codec, compression) triple the service accepts (from the negotiation model), with arbitrary extra headers " +
			"(including control headers of other protocols), query strings, absolute-form request targets (scheme and authority in r.URL), bodies that are not valid in the protocol, declared or unknown lengths, HTTP/1.1 or HTTP/2; or (b) a request to a path " +
			"no endpoint matches (including the late case: a real method of a REST-only service that has no binding, called through its RPC path), in every client form, with an unknown-endpoint handler installed. The downstream handler answers with an arbitrary status, headers, body bytes, write pattern and trailers. " +
			"oracle: deep equality of a snapshot of the request taken before ServeHTTP (method, URL, RequestURI, protocol version, header multimap, Host, ContentLength, body bytes) with what the " +
			"downstream handler observed, and of what the handler produced with what the recorder received; requests whose triple the service accepts are compared whichever path they took. non-trivial = the request carries a control header or a body; distinct by (kind, form, headers, body class)",
		Assume: []string{"the Proto string (\"HTTP/2\" vs \"HTTP/2.0\") is recorded, the numeric version is compared", "the request context is a child context by design and is not compared"},
		N:      func(t string) int { return tierN(t, 20000, 300000) },
		Run:    runC13,
		MinimaFor: func(t string) map[string]int {
			return map[string]int{"pass-through-compared": tierN(t, 8000, 120000), "unknown-compared": tierN(t, 4000, 60000)}
		},
	})
}

type reqSnap struct {
	Method     string
	URL        string
	RequestURI string
	Major      int
	Minor      int
	Proto      string
	Header     http.Header
	Host       string
	CL         int64
	Body       []byte
	TE         []string
	Trailer    http.Header
}

func snapReq(r *http.Request, body []byte) reqSnap {
	return reqSnap{Method: r.Method, URL: r.URL.String(), RequestURI: r.RequestURI, Major: r.ProtoMajor, Minor: r.ProtoMinor, Proto: r.Proto,
		Header: r.Header.Clone(), Host: r.Host, CL: r.ContentLength, Body: body, TE: append([]string(nil), r.TransferEncoding...), Trailer: r.Trailer.Clone()}
}

func (a reqSnap) diff(b reqSnap) string {
	switch {
	case a.Method != b.Method:
		return fmt.Sprintf("method %q vs %q", a.Method, b.Method)
	case a.URL != b.URL:
		return fmt.Sprintf("URL %q vs %q", a.URL, b.URL)
	case a.RequestURI != b.RequestURI:
		return fmt.Sprintf("RequestURI %q vs %q", a.RequestURI, b.RequestURI)
	case a.Major != b.Major || a.Minor != b.Minor:
		return fmt.Sprintf("protocol version %d.%d vs %d.%d", a.Major, a.Minor, b.Major, b.Minor)
	case !reflect.DeepEqual(a.Header, b.Header):
		return fmt.Sprintf("headers %v vs %v", hdrString(a.Header), hdrString(b.Header))
	case a.Host != b.Host:
		return fmt.Sprintf("Host %q vs %q", a.Host, b.Host)
	case a.CL != b.CL:
		return fmt.Sprintf("ContentLength %d vs %d", a.CL, b.CL)
	case !bytes.Equal(a.Body, b.Body):
		return fmt.Sprintf("body %d bytes %q vs %d bytes %q", len(a.Body), clip(a.Body, 60), len(b.Body), clip(b.Body, 60))
	case !reflect.DeepEqual(a.TE, b.TE):
		return fmt.Sprintf("TransferEncoding %v vs %v", a.TE, b.TE)
	}
	return ""
}

// snapHandler is the downstream handler: records what it sees, answers with a raw scripted response.
type snapHandler struct {
	calls    int
	seen     reqSnap
	ctx      context.Context
	readBuf  int
	status   int
	headers  http.Header
	body     []byte
	seg      []int
	trailers http.Header
	sameW    bool
	w        http.ResponseWriter
}

func (h *snapHandler) ServeHTTP(w http.ResponseWriter, r *http.Request) {
	h.calls++
	h.ctx = r.Context()
	h.w = w
	n := h.readBuf
	if n <= 0 {
		n = 4096
	}
	var all []byte
	buf := make([]byte, n)
	for {
		k, err := r.Body.Read(buf)
		all = append(all, buf[:k]...)
		if err != nil {
			break
		}
	}
	h.seen = snapReq(r, all) // taken after the body was read to its end: request trailers are in by now
	for k, v := range h.headers {
		w.Header()[k] = append([]string(nil), v...)
	}
	w.WriteHeader(h.status)
	rest := h.body
	idx := 0
	for len(rest) > 0 {
		k := len(rest)
		if idx < len(h.seg) && h.seg[idx] > 0 && h.seg[idx] < k {
			k = h.seg[idx]
		}
		idx++
		if _, err := w.Write(rest[:k]); err != nil {
			break
		}
		if f, ok := w.(http.Flusher); ok && idx%2 == 0 {
			f.Flush()
		}
		rest = rest[k:]
	}
	for k, v := range h.trailers {
		w.Header()[http.TrailerPrefix+k] = append([]string(nil), v...)
	}
}

func c13Headers(r *rand.Rand) http.Header {
	h := genAppHeaders(r, "X-Any", r.IntN(4))
	pool := [][2]string{{"Grpc-Timeout", "5S"}, {"Grpc-Encoding", "gzip"}, {"Grpc-Accept-Encoding", "gzip,br"}, {"Connect-Timeout-Ms", "100"}, {"Connect-Content-Encoding", "br"},
		{"Connect-Accept-Encoding", "gzip"}, {"X-Server-Timeout", "1.5"}, {"Accept-Encoding", "gzip, deflate, br;q=0.1"}, {"Te", "trailers"}, {"Trailer", "X-Sum"},
		{"Authorization", "Bearer abc.def"}, {"Cookie", "a=b; c=d"}, {"User-Agent", "verif/1.0"}, {"Accept", "*/*"}, {"Grpc-Status", "7"}, {"Connect-Protocol-Version", "1"}, {"X-Forwarded-For", "10.0.0.1, 10.0.0.2"}}
	for k, n := 0, r.IntN(5); k < n; k++ {
		p := pick(r, pool)
		h.Add(p[0], p[1])
	}
	return h
}

func runC13(c *Ctx, i int, r *rand.Rand) {
	kitchen()
	unknown := i%3 == 0
	cfg := genConfig(r)
	cfg.Unknown = true
	cfg.Limit = 1 << 20 // mutated envelopes may announce gigabytes; keep the buffer limit finite
	m := pick(r, kitchenList)
	// the "late" not-found: the RPC path names a real method, but the service only speaks REST and the method has no
	// binding, so the lookup fails after the protocol headers were already taken apart
	lateUnknown := unknown && chance(r, 25)
	if lateUnknown {
		m = kitchenInfo[pick(r, []string{"Unary", "UnaryNSE", "UnaryIdem", "ClientStream", "ServerStream", "Bidi"})]
		cfg.Protocols, cfg.Codecs = []string{"rest"}, []string{"json"}
	}
	form := pick(r, formsFor(m))
	creq := &ClientReq{Form: form, M: m, HTTP2: form == FGRPC || m.Stream == stBidi || chance(r, 50), DeclLen: chance(r, 50), GetViaQuery: chance(r, 50)}
	// choose codec/compression the service accepts (pass-through) – or anything for the unknown path
	creq.Codec = pick(r, cfg.Codecs)
	if form == FREST {
		creq.Codec = "json"
	}
	if lateUnknown {
		creq.Codec = pick(r, []string{"proto", "json"})
	}
	if len(cfg.Comps) > 0 && chance(r, 50) {
		creq.Comp = pick(r, cfg.Comps)
	}
	if !unknown && !cfg.HasProtocol(form.Protocol()) {
		cfg.Protocols = append(cfg.Protocols, form.Protocol())
	}
	if form == FREST {
		b := pick(r, m.Rules)
		msg, rr, ch := genForBinding(r, b, "c13")
		if msg == nil {
			return
		}
		creq.Binding, creq.Rest, creq.Render, creq.Msgs = b, rr, ch, []protoMsg{msg}
	} else {
		n := 1
		if m.Stream == stClient || m.Stream == stBidi {
			n = r.IntN(4)
		}
		for k := 0; k < n; k++ {
			creq.Msgs = append(creq.Msgs, genMessage(r, m.In(), genOpts{density: 5}))
		}
		creq.FrameComp = frameCompPattern(r, n)
	}
	built, err := creq.Build(r)
	if err != nil {
		return
	}
	creq.RawTarget = built.Req.RequestURI
	creq.UseRawBody, creq.RawBody = true, built.Raw
	bodyClass := "valid"
	if chance(r, 35) {
		creq.RawBody = mutateBody(r, built.Raw) // bytes that are not valid in the protocol: still forwarded untouched
		bodyClass = "mutated"
	}
	if unknown && !lateUnknown {
		path, q, _ := strings.Cut(creq.RawTarget, "?")
		path = pick(r, []string{"/no.such.Service/Method", "/verif.v1.Kitchen/NoSuchMethod", "/v9/nothing/here", "/", "/verif.v1.Kitchen/Unary/extra", path + "x", "/%41%2F%25", "/v1/params"})
		creq.RawTarget = path
		if q != "" && chance(r, 70) {
			creq.RawTarget += "?" + q
		}
	}
	if chance(r, 30) && !strings.Contains(creq.RawTarget, "?") && form != FREST && form != FConnectGet {
		creq.RawTarget += "?" + pick(r, []string{"a=b", "x=%41&y=", "debug", "a=1&a=2"})
	}
	creq.App = c13Headers(r)
	creq.Extra = http.Header{}
	if creq.Comp == "" && chance(r, 12) {
		// "uncompressed" spelled out: still a request that needs no conversion
		if form == FConnectGet {
			if strings.Contains(creq.RawTarget, "?") && !strings.Contains(creq.RawTarget, "compression=") {
				creq.RawTarget += "&compression=identity"
				c.Count("explicit-identity")
			}
		} else {
			enc, _, _ := encName(form)
			creq.Extra[enc] = []string{"identity"}
			c.Count("explicit-identity")
		}
	}
	if chance(r, 12) && strings.HasPrefix(creq.RawTarget, "/") {
		// absolute-form request target (what a client sends to a proxy, or a fronting proxy forwards): net/http puts
		// scheme and authority into r.URL, and they must still be there downstream
		creq.RawTarget = pick(r, []string{"http://assets.example.com:8080", "https://api.example.com", "http://user:pw@10.0.0.1:81"}) + creq.RawTarget
		c.Count("absolute-form-target")
	}
	// second build with the final raw target/body
	built, err = creq.Build(r)
	if err != nil {
		return
	}
	t, err := buildTranscoder(cfg, false)
	if err != nil {
		c.Violate(i, "harness/config", err.Error())
		return
	}
	down := &snapHandler{readBuf: pick(r, []int{1, 7, 4096}), status: pick(r, []int{200, 200, 201, 204, 400, 404, 418, 500, 503}),
		headers: genAppHeaders(r, "X-Down", r.IntN(4)), trailers: genAppHeaders(r, "X-DownTrail", r.IntN(3)), seg: []int{1, 3, 1 << 20}}
	down.headers.Set("Content-Type", pick(r, []string{"application/grpc", "application/json", "text/plain", "application/connect+proto", "application/octet-stream"}))
	if down.status != 204 {
		down.body = mutateBody(r, []byte("\x00\x00\x00\x00\x05hello{\"a\":1}"))
		if chance(r, 30) {
			down.headers.Set("Content-Length", fmt.Sprint(len(down.body)))
		}
	}
	rec := newRecorder()
	built.Body.Chunks = chunkPlan(r)
	ctx := context.WithValue(context.Background(), ctxKey{}, http.Handler(down))
	ctx = context.WithValue(ctx, ctxUnknownKey{}, http.Handler(down))
	req := built.Req.WithContext(ctx)
	// request trailers: announced up front, filled in (in place, in the request's own Trailer map - that is how
	// net/http delivers them) when the body reaches its end
	var wantTrailers http.Header
	if chance(r, 20) {
		wantTrailers = http.Header{}
		req.Trailer = http.Header{}
		for k, n := 0, 1+r.IntN(2); k < n; k++ {
			name := fmt.Sprintf("X-Body-Trail%d", k)
			req.Trailer[name] = nil
			wantTrailers[name] = []string{pick(r, appValuePool)}
		}
		treq := req
		built.Body.OnEOF = func() {
			for k, v := range wantTrailers {
				treq.Trailer[k] = v
			}
		}
		c.Count("request-with-trailers")
	}
	before := snapReq(req, append([]byte(nil), creq.RawBody...))
	var panicked any
	func() {
		defer func() { panicked = recover() }()
		t.ServeHTTP(rec, req)
	}()
	rec.Finish()
	c.Eval()
	kind := "pass-through"
	if unknown {
		kind = "unknown"
	}
	if lateUnknown {
		kind = "unknown-late"
		c.Count("late-not-found")
	}
	describe := func() string {
		return fmt.Sprintf("kind=%s form=%s config: protocols=%v codecs=%v comps=%v\nrequest: %s %s proto=%s CL=%d headers=%s body=%d bytes (%s)\ndownstream calls=%d saw: %s %s proto=%s CL=%d headers=%s body=%d bytes\nhandler wrote: status=%d headers=%s body=%d bytes trailers=%s\nclient got: status=%d headers=%s body=%d bytes trailers=%s",
			kind, form, cfg.Protocols, cfg.Codecs, cfg.Comps, before.Method, before.RequestURI, before.Proto, before.CL, hdrString(before.Header), len(before.Body), bodyClass,
			down.calls, down.seen.Method, down.seen.RequestURI, down.seen.Proto, down.seen.CL, hdrString(down.seen.Header), len(down.seen.Body),
			down.status, hdrString(down.headers), len(down.body), hdrString(down.trailers), rec.Code, hdrString(rec.HeadersSent()), rec.Body.Len(), hdrString(rec.Trailers()))
	}
	if i < 2 {
		c.Sample(map[string]any{"case": i, "describe": describe()})
	}
	if panicked != nil {
		c.Violate(i, "transcoder-panic", fmt.Sprintf("%v\n%s", panicked, describe()))
		return
	}
	if down.calls == 0 {
		// not forwarded (the request was rejected or transcoded after all, e.g. the mutation changed its classification)
		c.Count("not-forwarded:" + kind)
		return
	}
	c.Count(kind + "-observed")
	mustPassThrough := !unknown
	for _, k := range []string{"Grpc-Encoding", "Connect-Content-Encoding", "Content-Encoding", "Content-Type"} {
		if _, ok := creq.App[k]; ok {
			mustPassThrough = false
		}
	}
	if len(before.Body) > 0 || len(creq.App) > 0 {
		c.Nontrivial(fmt.Sprintf("%s|%s|%v|%s|%d", kind, form, sortedKeys(creq.App), bodyClass, len(before.Body)))
	}
	if down.calls > 1 {
		c.Violate(i, "forwarded-twice/"+kind, describe())
	}
	if _, isRec := down.w.(*Recorder); !isRec {
		// the handler was reached through the transcoding path. For a request whose triple the service accepts
		// (and whose own compression header the extra headers did not touch) no conversion applies, so what the
		// handler saw is compared all the same; otherwise (e.g. a mutated path that still matches a wildcard
		// route, an added encoding header the service does not accept) conversion is other properties' business.
		if !mustPassThrough {
			c.Count("transcoded-not-forwarded:" + kind)
			return
		}
		c.Count("accepted-triple-reached-through-conversion-path")
	}
	c.Count(kind + "-compared")
	if d := before.diff(down.seen); d != "" {
		c.Violate(i, "request-altered/"+kind+"/"+classify(d), fmt.Sprintf("downstream handler did not receive the client's request unchanged: %s\n%s", d, describe()))
	}
	for k, v := range wantTrailers {
		if got := down.seen.Trailer[k]; !reflect.DeepEqual(got, v) {
			c.Violate(i, "request-trailer-lost/"+kind, fmt.Sprintf("request trailer %s: client sent %q after the body, the downstream handler saw %q\n%s", k, v, got, describe()))
			break
		}
	}
	if before.Proto != down.seen.Proto {
		c.Count("proto-string-differs:" + before.Proto + "->" + down.seen.Proto)
	}
	// response side
	if rec.Code != down.status {
		c.Violate(i, "response-status-altered/"+kind, describe())
	}
	for k, v := range down.headers {
		if !reflect.DeepEqual(rec.HeadersSent()[k], v) {
			c.Violate(i, "response-header-altered/"+kind, fmt.Sprintf("header %s: handler %q client %q\n%s", k, v, rec.HeadersSent()[k], describe()))
		}
	}
	for k := range rec.HeadersSent() {
		if _, ok := down.headers[k]; !ok {
			c.Violate(i, "response-header-added/"+kind, fmt.Sprintf("header %s=%q was not set by the handler\n%s", k, rec.HeadersSent()[k], describe()))
		}
	}
	wantBody := down.body
	if !bytes.Equal(rec.Body.Bytes(), wantBody) && len(rec.Faults) == 0 {
		c.Violate(i, "response-body-altered/"+kind, describe())
	}
	if !reflect.DeepEqual(map[string][]string(rec.Trailers()), map[string][]string(canonHeader(down.trailers))) && !(len(rec.Trailers()) == 0 && len(down.trailers) == 0) {
		c.Violate(i, "response-trailers-altered/"+kind, describe())
	}
	if down.ctx != nil && down.ctx.Err() == nil {
		c.Violate(i, "context-not-cancelled/"+kind, describe())
	}
}

var _ = io.EOF
