package main

import (
	"fmt"
	"math/rand/v2"

	"google.golang.org/protobuf/encoding/prototext"
	"google.golang.org/protobuf/proto"
	"google.golang.org/protobuf/reflect/protoreflect"
)

func shortMsg(m proto.Message) string {
	if m == nil {
		return "<undecodable>"
	}
	s := prototext.MarshalOptions{}.Format(m)
	if len(s) > 400 {
		s = s[:400] + "..."
	}
	return s
}

// stripNullValues clears singular google.protobuf.Value fields that hold null_value (recursively).
func stripNullValues(m protoreflect.Message) {
	m.Range(func(fd protoreflect.FieldDescriptor, v protoreflect.Value) bool {
		if fd.Message() == nil {
			return true
		}
		switch {
		case fd.IsMap():
			if fd.MapValue().Message() != nil && !isWKT(fd.MapValue().Message()) {
				v.Map().Range(func(_ protoreflect.MapKey, mv protoreflect.Value) bool {
					stripNullValues(mv.Message())
					return true
				})
			}
		case fd.IsList():
			if !isWKT(fd.Message()) {
				for i := 0; i < v.List().Len(); i++ {
					stripNullValues(v.List().Get(i).Message())
				}
			}
		case fd.Message().FullName() == "google.protobuf.Value":
			vm := v.Message()
			if vm.Has(vm.Descriptor().Fields().ByName("null_value")) {
				m.Clear(fd)
			}
		case !isWKT(fd.Message()):
			stripNullValues(v.Message())
		}
		return true
	})
}

// equalModuloNullValue: equal once unset google.protobuf.Value fields and ones holding null are identified.
func equalModuloNullValue(a, b proto.Message, bodyFields []string) bool {
	ca, cb := proto.Clone(a), proto.Clone(b)
	stripNullValues(ca.ProtoReflect())
	stripNullValues(cb.ProtoReflect())
	n := normEmptyFields([]proto.Message{ca, cb}, bodyFields)
	return proto.Equal(n[0], n[1])
}

// normEmptyFields identifies "absent" and "present but empty" for the named top-level singular
// message fields. A REST body / response_body selector has one representation for both
// (an empty JSON object or an empty body), so the distinction cannot cross a REST leg.
func normEmptyFields(msgs []proto.Message, fields []string) []proto.Message {
	out := make([]proto.Message, len(msgs))
	for i, msg := range msgs {
		out[i] = msg
		if msg == nil {
			continue
		}
		for _, f := range fields {
			if f == "" || f == "*" {
				continue
			}
			m := out[i].ProtoReflect()
			fd := m.Descriptor().Fields().ByName(protoreflect.Name(f))
			if fd == nil || fd.Message() == nil || fd.IsList() || fd.IsMap() || !m.Has(fd) {
				continue
			}
			empty := true
			m.Get(fd).Message().Range(func(protoreflect.FieldDescriptor, protoreflect.Value) bool { empty = false; return false })
			if empty {
				c := proto.Clone(out[i])
				c.ProtoReflect().Clear(fd)
				out[i] = c
			}
		}
	}
	return out
}

// seqDiff compares two message sequences; prefixOnly accepts got being a strict prefix.
// kind "" = equal; "value-null" = differ only by unset google.protobuf.Value fields that arrived as null.
func seqDiff(want, got []proto.Message, prefixOnly bool, bodyFields ...string) (diff string, kind string) {
	if len(got) > len(want) || (!prefixOnly && len(got) != len(want)) {
		return fmt.Sprintf("count: want %d got %d", len(want), len(got)), "count"
	}
	if len(bodyFields) > 0 {
		want, got = normEmptyFields(want, bodyFields), normEmptyFields(got, bodyFields)
	}
	for i := range got {
		if got[i] == nil || !proto.Equal(want[i], got[i]) {
			d := fmt.Sprintf("message %d differs%s:\n want %s\n got  %s", i, fieldDiff(want[i], got[i]), shortMsg(want[i]), shortMsg(got[i]))
			if got[i] != nil && equalModuloNullValue(want[i], got[i], bodyFields) {
				if kind == "" {
					diff, kind = d, "value-null"
				}
				continue
			}
			return d, "content"
		}
	}
	return diff, kind
}

// expectation computes what the client must decode from what the backend produced.
func expectedClientMsgs(s *Scenario, e *Exec) []proto.Message {
	sc := s.Script
	n := len(sc.Msgs)
	if sc.Err != nil && sc.ErrAfter < n {
		n = sc.ErrAfter
	}
	out := make([]proto.Message, 0, n)
	for i := 0; i < n; i++ {
		m := sc.Msgs[i]
		if e.Backend.Obs.Proto == "rest" && e.Backend.Obs.Binding != nil {
			m = restrictTo(m, e.Backend.Obs.Binding.RespBody)
		}
		if s.Req.Form == FREST && s.Req.Binding != nil {
			m = restrictTo(m, s.Req.Binding.RespBody)
		}
		out = append(out, m)
	}
	return out
}

// carriable: the reference codecs can carry every message over both legs.
func scenarioCarriable(s *Scenario, targetCodec string, r *rand.Rand) (bool, string) {
	jsonLeg := s.Req.Codec == "json" || targetCodec == "json" || s.Target == "rest" || s.Req.Form == FREST
	for _, m := range s.Req.Msgs {
		if !protoCarriable(m) {
			return false, "proto"
		}
		if jsonLeg && !jsonCarriable(m) {
			return false, "json"
		}
		if s.Target == "rest" && s.Req.Form != FREST {
			if _, err := renderREST(s.Req.M.Rules[0], m, r, renderChoices{}); err != nil {
				return false, "rest-url"
			}
		}
	}
	for _, m := range s.Script.Msgs {
		if jsonLeg && !jsonCarriable(m) {
			return false, "json"
		}
	}
	return true, ""
}

func targetCodecModel(cfg *SvcConfig, target, clientCodec string) string {
	if target == "rest" {
		return "json"
	}
	if contains(cfg.Codecs, clientCodec) {
		return clientCodec
	}
	return cfg.Codecs[0]
}

func init() {
	register(&Property{
		ID:    "C01",
		Level: "exploration",
		Rule: "scenario(i) = PCG(seed,C01,i): random service config (15 protocol subsets x 4 codec sets x compression sets) x client form x Kitchen method x " +
			"0..8 generated AllTypes/ParameterValues messages x per-frame compressed flags; oracle: conservation/order of sent vs independently decoded messages on both legs. " +
			"non-trivial = client and backend differ in protocol, codec or compression, or >=2 messages on a leg; distinct by (cell, codecs, compressions, counts, frame pattern)",
		Assume: []string{"Go stdlib compress/gzip, protobuf-go proto/protojson are the reference codecs", "harness encoders/decoders (wire.go, client.go, backend.go)"},
		N:      func(t string) int { return tierN(t, 20000, 400000) },
		Run:    runC01,
		MinimaFor: func(t string) map[string]int {
			return map[string]int{"ok": tierN(t, 7500, 150000), "backend-invoked": tierN(t, 10000, 200000)}
		},
	})
}

func runC01(c *Ctx, i int, r *rand.Rand) {
	marker := fmt.Sprintf("mk%d", i)
	s := genScenario(r, ScenOpts{MaxStr: pick(r, []int{0, 0, 200, 5000})}, marker)
	e, err := runRPC(s.Cfg, s.Req, s.Script, r, &execOpts{Chunks: chunkPlan(r)})
	if err != nil {
		c.Violate(i, "harness/build", err.Error())
		return
	}
	c.Eval()
	c.Count("cell:" + s.Cell())
	if i < 3 {
		c.Sample(map[string]any{"case": i, "cell": s.Cell(), "describe": e.Describe()})
	}
	checkC01(c, i, s, e, r)
}

func chunkPlan(r *rand.Rand) []int {
	switch r.IntN(4) {
	case 0:
		return nil
	case 1:
		return []int{1, 1, 1, 1, 1, 1, 1, 3, 5, 100}
	case 2:
		return []int{5, 1000, 5, 1000}
	}
	var out []int
	for i := 0; i < 20; i++ {
		out = append(out, 1+r.IntN(50))
	}
	return out
}

func checkC01(c *Ctx, i int, s *Scenario, e *Exec, r *rand.Rand) {
	if e.Panic != nil {
		c.Count("panic")
		c.Logf("PANIC in case %d:\n%s", i, e.Describe())
		return
	}
	o := e.Out
	bo := e.Backend.Obs
	if bo.Invocations > 0 {
		c.Count("backend-invoked")
	}
	tcodec := targetCodecModel(s.Cfg, s.Target, s.Req.Codec)
	carriable, why := scenarioCarriable(s, tcodec, r)
	wantC := expectedClientMsgs(s, e)
	nontrivial := bo.Invocations > 0 && (bo.target() != s.Req.Form.Protocol() || bo.Codec != s.Req.Codec || bo.Comp != s.Req.Comp || len(s.Req.Msgs) >= 2 || len(s.Script.Msgs) >= 2)
	if nontrivial {
		c.Nontrivial(fmt.Sprintf("%s|%s>%s|%s>%s|%d/%d|%v|%v", s.Cell(), s.Req.Codec, bo.Codec, s.Req.Comp, bo.Comp, len(s.Req.Msgs), len(s.Script.Msgs), s.Req.FrameComp, s.Script.FrameComp))
	}
	feat := fmt.Sprintf("%s->%s", s.Req.Form, bo.target())
	var reqBF, respBF []string
	if bo.Binding != nil {
		reqBF, respBF = append(reqBF, bo.Binding.Body), append(respBF, bo.Binding.RespBody)
	}
	if s.Req.Binding != nil {
		reqBF, respBF = append(reqBF, s.Req.Binding.Body), append(respBF, s.Req.Binding.RespBody)
	}
	if o.OK() {
		c.Count("ok")
		if bo.Invocations != 1 {
			c.Violate(i, "success-without-backend/"+feat, fmt.Sprintf("client saw success but backend invocations=%d\n%s", bo.Invocations, e.Describe()))
			return
		}
		if s.Script.Err != nil {
			c.Violate(i, "error-became-success/"+feat, e.Describe())
			return
		}
		if d, k := seqDiff(s.Req.Msgs, bo.Msgs, false, reqBF...); k == "value-null" {
			c.Violate(i, "unset-Value-field-delivered-as-null/request", fmt.Sprintf("%s\n%s", d, e.Describe()))
		} else if d != "" {
			c.Violate(i, "request-altered/"+feat+reqFeat(s, bo), fmt.Sprintf("backend did not observe the request messages the client sent: %s\n%s", d, e.Describe()))
			return
		}
		if d, k := seqDiff(wantC, o.Msgs, false, respBF...); k == "value-null" {
			c.Violate(i, "unset-Value-field-delivered-as-null/response", fmt.Sprintf("%s\n%s", d, e.Describe()))
		} else if d != "" {
			c.Violate(i, "response-altered/"+feat+respFeat(s, e), fmt.Sprintf("client did not observe the response messages the handler produced: %s\n%s", d, e.Describe()))
			return
		}
		return
	}
	c.Count("not-ok")
	// never data that was not sent, even on failure
	if bo.Invocations > 0 && bo.ReadErr == nil {
		if d, k := seqDiff(s.Req.Msgs, bo.Msgs, true, reqBF...); k == "value-null" {
			c.Violate(i, "unset-Value-field-delivered-as-null/request", fmt.Sprintf("%s\n%s", d, e.Describe()))
		} else if d != "" {
			c.Violate(i, "request-altered-on-error/"+feat+reqFeat(s, bo), fmt.Sprintf("%s\n%s", d, e.Describe()))
			return
		}
	}
	if len(o.Msgs) > 0 {
		if d, k := seqDiff(wantC, o.Msgs, true, respBF...); k == "value-null" {
			c.Violate(i, "unset-Value-field-delivered-as-null/response", fmt.Sprintf("%s\n%s", d, e.Describe()))
		} else if d != "" {
			c.Violate(i, "response-altered-on-error/"+feat+respFeat(s, e), fmt.Sprintf("%s\n%s", d, e.Describe()))
			return
		}
	}
	if s.Script.Err == nil && carriable {
		c.Violate(i, "carriable-but-failed/"+feat+fmt.Sprintf("/status%d-code%d", o.Status, o.Code), fmt.Sprintf("every message is carriable and the backend succeeded, but the client saw a failure\n%s", e.Describe()))
		return
	}
	if !carriable {
		c.Count("not-carriable:" + why)
	}
}

func reqFeat(s *Scenario, bo *BackendObs) string {
	return fmt.Sprintf("/mixedframes-%v", mixed(s.Req.FrameComp, s.Req.Comp))
}

func respFeat(s *Scenario, e *Exec) string {
	return fmt.Sprintf("/mixedframes-%v", mixed(s.Script.FrameComp, e.Backend.Obs.UsedComp))
}

func orNone(s string) string {
	if s == "" {
		return "none"
	}
	return s
}

// mixed reports whether a compressed stream contains at least one uncompressed frame.
func mixed(fc []bool, comp string) bool {
	if comp == "" {
		return false
	}
	for _, b := range fc {
		if !b {
			return true
		}
	}
	return false
}

// fieldDiff names the top-level fields in which two messages differ.
func fieldDiff(a, b proto.Message) string {
	if a == nil || b == nil {
		return ""
	}
	ma, mb := a.ProtoReflect(), b.ProtoReflect()
	if ma.Descriptor() != mb.Descriptor() {
		return ""
	}
	var names []string
	fs := ma.Descriptor().Fields()
	for i := 0; i < fs.Len(); i++ {
		fd := fs.Get(i)
		x, y := ma.New(), mb.New()
		if ma.Has(fd) {
			x.Set(fd, ma.Get(fd))
		}
		if mb.Has(fd) {
			y.Set(fd, mb.Get(fd))
		}
		if !proto.Equal(x.Interface(), y.Interface()) {
			names = append(names, fmt.Sprintf("%s (want %s, got %s)", fd.Name(), clipS(shortMsg(x.Interface())), clipS(shortMsg(y.Interface()))))
		}
	}
	if len(names) == 0 {
		return ""
	}
	return " in " + fmt.Sprint(names)
}
