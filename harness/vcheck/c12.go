package main

import (
	"fmt"
	"math"
	"math/big"
	"math/rand/v2"
	"regexp"
	"strconv"
	"strings"

	"google.golang.org/protobuf/proto"
)

func init() {
	register(&Property{
		ID:    "C12",
		Level: "exploration",
		Rule: "case i: (client form, target protocol, timeout string). Strings: gRPC 1..8 digit values at every digit-count boundary x 6 units plus random values (thorough: every 1..3 digit value x unit), " +
			"Connect 1..10 digit millisecond counts at all boundaries, REST decimal seconds (integers, fractions down to sub-nanosecond, values around the time.Duration limit), zero, absent; " +
			"plus unambiguously malformed strings (wrong unit, >8 digits, sign, non-digits, empty number; non-numeric/negative ms; non-numeric seconds) and borderline ones (NaN, Inf, hex, exponent, negative seconds, 11+ digit ms). " +
			"oracle in exact arithmetic (math/big): c = client value, b = value the backend saw parsed with the target protocol's grammar; absent => absent; b <= c and c-b < rounding unit of the target encoding " +
			"(the gRPC unit letter emitted, 1 ms for Connect, float64 seconds for REST) or b is the target's maximum with c above it, or absent with c beyond time.Duration; valid => dispatched; malformed => 4xx and no dispatch. " +
			"non-trivial = the target protocol differs from the client's; distinct by (form, target, string)",
		Assume: []string{"REST X-Server-Timeout is compared in its own value domain (nearest float64 seconds)", "borderline strings may be rejected or relayed with b <= c"},
		N:      func(t string) int { return tierN(t, 20000, 300000) },
		Run:    runC12,
		MinimaFor: func(t string) map[string]int {
			return map[string]int{"valid-converted": tierN(t, 6000, 90000), "malformed": tierN(t, 1500, 20000), "absent": tierN(t, 400, 6000)}
		},
	})
}

var (
	reGrpcT    = regexp.MustCompile(`^([0-9]{1,8})([HMSmun])$`)
	reConnectT = regexp.MustCompile(`^[0-9]{1,10}$`)
	reRestT    = regexp.MustCompile(`^[0-9]+(\.[0-9]+)?$`)
)

var grpcUnitNs = map[string]int64{"H": 3600e9, "M": 60e9, "S": 1e9, "m": 1e6, "u": 1e3, "n": 1}

// parseTimeoutRef parses a timeout header of the given protocol family into nanoseconds (exact rational).
// class: "valid", "malformed", "borderline".
func parseTimeoutRef(family, s string) (*big.Rat, string) {
	switch family {
	case "grpc":
		m := reGrpcT.FindStringSubmatch(s)
		if m == nil {
			return nil, "malformed"
		}
		n, _ := new(big.Int).SetString(m[1], 10)
		return new(big.Rat).SetInt(n.Mul(n, big.NewInt(grpcUnitNs[m[2]]))), "valid"
	case "connect":
		if !reConnectT.MatchString(s) {
			if regexp.MustCompile(`^[0-9]{11,}$`).MatchString(s) {
				n, _ := new(big.Int).SetString(s, 10)
				return new(big.Rat).SetInt(n.Mul(n, big.NewInt(1e6))), "borderline"
			}
			return nil, "malformed"
		}
		n, _ := new(big.Int).SetString(s, 10)
		return new(big.Rat).SetInt(n.Mul(n, big.NewInt(1e6))), "valid"
	case "rest":
		if reRestT.MatchString(s) {
			// the header is a float: its value is the nearest float64 of the decimal string
			f, err := strconv.ParseFloat(s, 64)
			if err != nil && !math.IsInf(f, 0) {
				return nil, "malformed"
			}
			if math.IsInf(f, 0) {
				r, _ := new(big.Rat).SetString(s)
				return r.Mul(r, big.NewRat(1e9, 1)), "valid"
			}
			r := new(big.Rat)
			r.SetFloat64(f)
			return r.Mul(r, big.NewRat(1e9, 1)), "valid"
		}
		if f, err := strconv.ParseFloat(s, 64); err == nil {
			if math.IsNaN(f) || math.IsInf(f, 0) || f < 0 {
				return nil, "borderline"
			}
			r := new(big.Rat)
			r.SetFloat64(f)
			return r.Mul(r, big.NewRat(1e9, 1)), "borderline"
		}
		return nil, "malformed"
	}
	return nil, "malformed"
}

func timeoutFamily(form ClientForm) string {
	switch form {
	case FGRPC, FGRPCWeb:
		return "grpc"
	case FREST:
		return "rest"
	}
	return "connect"
}

func targetFamily(proto string) string {
	switch proto {
	case "grpc", "grpcweb":
		return "grpc"
	case "rest":
		return "rest"
	}
	return "connect"
}

var maxDurationNs = new(big.Rat).SetInt64(math.MaxInt64)

func genTimeoutString(r *rand.Rand, family string, i int, thorough bool) string {
	switch family {
	case "grpc":
		units := []string{"H", "M", "S", "m", "u", "n"}
		switch r.IntN(10) {
		case 0, 1, 2:
			bounds := []int{0, 1, 9, 10, 99, 100, 999, 1000, 9999, 10000, 99999, 100000, 999999, 1000000, 9999999, 10000000, 99999999, 8, 2562047, 2562048, 59, 60, 61, 3599, 3600, 3601}
			return fmt.Sprintf("%d%s", pick(r, bounds), pick(r, units))
		case 3, 4:
			if thorough {
				return fmt.Sprintf("%d%s", i%1000, units[(i/1000)%6])
			}
			return fmt.Sprintf("%d%s", r.IntN(1000), pick(r, units))
		case 5:
			return fmt.Sprintf("%08d%s", r.IntN(100000000), pick(r, units)) // leading zeros
		case 6:
			return pick(r, []string{"5s", "5h", "5", "S", "", "-5S", "+5S", "5.5S", "123456789S", "999999999n", " 5S", "5S ", "5 S", "5SS", "0x5S", "٥S", "5µ", "1e3S", "5N", "5U"}) // malformed
		default:
			return fmt.Sprintf("%d%s", r.IntN(100000000), pick(r, units))
		}
	case "connect":
		switch r.IntN(8) {
		case 0, 1, 2:
			return pick(r, []string{"0", "1", "9", "10", "99", "100", "999", "1000", "30000", "999999999", "1000000000", "9999999999", "9223372036854", "9223372036855", "4294967295", "4294967296", "0000000005"})
		case 3:
			return pick(r, []string{"-1", "abc", "1.5", "5ms", " 5", "5 ", "+5", "0x10", "1e3", "٥", "99999999999", "18446744073709551616", "9223372036854775808", ""})
		default:
			d := 1 + r.IntN(10)
			s := ""
			for k := 0; k < d; k++ {
				s += strconv.Itoa(r.IntN(10))
			}
			return s
		}
	default:
		switch r.IntN(8) {
		case 0, 1, 2:
			return pick(r, []string{"0", "1", "0.5", "0.001", "0.000001", "0.000000001", "0.0000000001", "0.0000000015", "30", "1.5", "3600", "86400.25", "9223372036", "9223372036.854775807", "9223372036.9", "9223372037", "1e9999", "99999999999999999999", "0.1", "0.3", "123456.789012345", "2.5e-10"})
		case 3:
			return pick(r, []string{"abc", "1s", "1,5", "1.5.2", " 1", "--1", "NaN", "Inf", "-Inf", "-1", "-0.5", "0x10", "1e3", "1E-3", "+1", ".5", "5.", "1_000", ""})
		default:
			return strconv.FormatFloat(r.Float64()*math.Pow(10, float64(r.IntN(12))-3), 'f', r.IntN(10), 64)
		}
	}
}

func runC12(c *Ctx, i int, r *rand.Rand) {
	kitchen()
	cfg := genConfig(r)
	m := kitchenInfo[pick(r, []string{"GetParams", "GetParams", "PostParams", "Bidi", "ServerStream"})]
	form := pick(r, formsFor(m))
	target := resolveTarget(cfg, form.Protocol())
	if target == "rest" && (len(m.Rules) == 0 || m.Stream != stUnary) {
		m = kitchenInfo["GetParams"]
		form = pick(r, formsFor(m))
		target = resolveTarget(cfg, form.Protocol())
	}
	creq := &ClientReq{Form: form, M: m, Codec: pick(r, []string{"proto", "json"}), HTTP2: true, GetViaQuery: true}
	if form == FREST {
		creq.Codec = "json"
		b := m.Rules[0]
		msg, rr, ch := genForBinding(r, b, "c12")
		if msg == nil {
			return
		}
		creq.Binding, creq.Rest, creq.Render, creq.Msgs = b, rr, ch, []proto.Message{msg}
	} else if target == "rest" {
		msg, _, _ := genForBinding(r, m.Rules[0], "c12")
		if msg == nil {
			return
		}
		creq.Msgs = []proto.Message{msg}
	} else {
		creq.Msgs = []proto.Message{genMessage(r, m.In(), genOpts{density: 3})}
	}
	fam := timeoutFamily(form)
	absent := i%40 == 0
	ts := ""
	if !absent {
		ts = genTimeoutString(r, fam, i, c.Thorough())
		_, _, toH := encName(form)
		creq.Extra = map[string][]string{toH: {ts}}
	}
	script := &BackendScript{Msgs: []proto.Message{genMessage(r, m.Out(), genOpts{density: 3})}}
	e, err := runRPC(cfg, creq, script, r, nil)
	if err != nil {
		return
	}
	c.Eval()
	if i < 3 {
		c.Sample(map[string]any{"case": i, "form": form.String(), "target": target, "timeout": ts, "describe": e.Describe()})
	}
	bo := e.Backend.Obs
	feat := fmt.Sprintf("%s->%s", fam, orNone(targetFamily(bo.target())))
	detail := func() string { return fmt.Sprintf("client %s timeout %q\n%s", fam, ts, e.Describe()) }
	if e.Panic != nil {
		c.Violate(i, "transcoder-panic/"+panicSite(e.Stack), detail())
		return
	}
	if absent {
		c.Count("absent")
		if bo.Invocations > 0 {
			for _, h := range []string{"Grpc-Timeout", "Connect-Timeout-Ms", "X-Server-Timeout"} {
				if v, ok := bo.Header[h]; ok {
					c.Violate(i, "timeout-invented/"+feat, fmt.Sprintf("backend saw %s=%q\n%s", h, v, detail()))
				}
			}
		}
		return
	}
	if ts == "" {
		return // an empty header value: indistinguishable from absent for net/http consumers
	}
	cval, class := parseTimeoutRef(fam, ts)
	switch class {
	case "malformed":
		c.Count("malformed")
		if bo.Invocations > 0 {
			c.Violate(i, "malformed-timeout-dispatched/"+feat, detail())
		} else if e.Out.Status < 400 || e.Out.Status > 499 {
			if !(e.Out.Kind == "error" && e.Out.Code == 3) {
				c.Violate(i, fmt.Sprintf("malformed-timeout-not-a-client-error/%s/status%d", fam, e.Out.Status), detail())
			}
		}
		return
	case "borderline":
		c.Count("borderline")
		if bo.Invocations == 0 {
			return
		}
	default:
		if bo.Invocations == 0 {
			c.Violate(i, "valid-timeout-rejected/"+feat, detail())
			return
		}
	}
	tfam := targetFamily(bo.target())
	if tfam != fam {
		c.Count("valid-converted")
		c.Nontrivial(fmt.Sprintf("%s|%s|%s", form, bo.target(), ts))
	} else {
		c.Count("valid-same-family")
	}
	bvals, present := bo.Header[map[string]string{"grpc": "Grpc-Timeout", "connect": "Connect-Timeout-Ms", "rest": "X-Server-Timeout"}[tfam]]
	if !present {
		if cval != nil && cval.Cmp(maxDurationNs) > 0 {
			c.Count("unbounded")
			return // beyond what a time.Duration can hold: treated as unbounded
		}
		if class == "borderline" {
			return
		}
		c.Violate(i, "timeout-dropped/"+feat, fmt.Sprintf("client value %s ns; backend saw no timeout\n%s", ratStr(cval), detail()))
		return
	}
	if len(bvals) != 1 {
		c.Violate(i, "timeout-duplicated/"+feat, detail())
		return
	}
	bs := bvals[0]
	if bs == ts && tfam == fam {
		c.Count("relayed-verbatim")
		return // the client's own string, untouched: b == c
	}
	bval, bclass := parseTimeoutRef(tfam, bs)
	if bclass != "valid" {
		c.Violate(i, "timeout-invalid-at-backend/"+feat, fmt.Sprintf("backend saw %q\n%s", bs, detail()))
		return
	}
	if cval == nil {
		return // borderline without a defined value (NaN, Inf, negative)
	}
	// never extended
	if tfam == "rest" {
		cf, _ := new(big.Rat).Quo(cval, big.NewRat(1e9, 1)).Float64()
		bf, _ := strconv.ParseFloat(bs, 64)
		if bf > math.Nextafter(cf, math.Inf(1)) { // one ulp of float64 rendering noise (sec + nsec/1e9) is not an extension
			c.Violate(i, "timeout-extended/"+feat, fmt.Sprintf("client %s s (float64 %v), backend %q\n%s", ratStr(cval), cf, bs, detail()))
			return
		}
		// falls short by less than the encoding's resolution (time.Duration nanoseconds rendered as float seconds)
		if cf-bf > math.Max(1e-9, cf*1e-15) && !(cval.Cmp(maxDurationNs) > 0 && bf >= 9.2e9) {
			c.Violate(i, "timeout-shortened/"+feat, fmt.Sprintf("client %v s, backend %v s\n%s", cf, bf, detail()))
		}
		return
	}
	slack := new(big.Rat)
	if fam == "rest" {
		// one float64 multiplication (seconds -> nanoseconds) may round by half an ulp
		slack.Mul(cval, new(big.Rat).SetFrac64(1, 1<<52))
	}
	if bval.Cmp(new(big.Rat).Add(cval, slack)) > 0 {
		c.Violate(i, "timeout-extended/"+feat, fmt.Sprintf("client %s ns, backend %s ns (%q)\n%s", ratStr(cval), ratStr(bval), bs, detail()))
		return
	}
	var unit *big.Rat
	var maxv *big.Rat
	if tfam == "grpc" {
		unit = big.NewRat(grpcUnitNs[bs[len(bs)-1:]], 1)
		maxv = new(big.Rat).Mul(big.NewRat(99999999, 1), big.NewRat(3600e9, 1))
	} else {
		unit = big.NewRat(1e6, 1)
		maxv = new(big.Rat).Mul(big.NewRat(9999999999, 1), big.NewRat(1e6, 1))
	}
	diff := new(big.Rat).Sub(cval, bval)
	if diff.Cmp(unit) >= 0 {
		clampedToEncodingMax := bval.Cmp(maxv) == 0 && cval.Cmp(maxv) > 0
		clampedToDuration := cval.Cmp(maxDurationNs) > 0 && new(big.Rat).Sub(maxDurationNs, bval).Cmp(unit) < 0
		if !clampedToEncodingMax && !clampedToDuration {
			c.Violate(i, "timeout-shortened/"+feat, fmt.Sprintf("client %s ns, backend %s ns (%q): short by %s ns, rounding unit %s ns\n%s", ratStr(cval), ratStr(bval), bs, ratStr(diff), ratStr(unit), detail()))
		}
	}
}

func ratStr(r *big.Rat) string {
	if r == nil {
		return "<none>"
	}
	if r.IsInt() {
		return r.Num().String()
	}
	return strings.TrimRight(r.FloatString(12), "0")
}
