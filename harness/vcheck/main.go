// Command vcheck runs the runtime monitors for the vanguard-go properties C01..C20.
//
//	vcheck <ID> [--tier quick|thorough] [--seed N] [--case i] [-v]
//	vcheck replay <replay.json>
//	vcheck list
package main

import (
	"encoding/json"
	"fmt"
	"os"
	"runtime"
	"runtime/pprof"
	"sort"
	"strconv"
	"time"
)

func main() {
	args := os.Args[1:]
	if len(args) == 0 {
		fmt.Fprintln(os.Stderr, "usage: vcheck <ID>|replay|list ...")
		os.Exit(2)
	}
	verifDir := os.Getenv("VERIF_DIR")
	if verifDir == "" {
		verifDir = "/verif"
	}
	loadKnown(verifDir)
	switch args[0] {
	case "list":
		var ids []string
		for id := range registry {
			ids = append(ids, id)
		}
		sort.Strings(ids)
		for _, id := range ids {
			fmt.Printf("%s quick=%d thorough=%d level=%s\n", id, registry[id].N("quick"), registry[id].N("thorough"), registry[id].Level)
		}
		return
	case "replay":
		if len(args) < 2 {
			fmt.Fprintln(os.Stderr, "usage: vcheck replay <path>")
			os.Exit(2)
		}
		data, err := os.ReadFile(args[1])
		if err != nil {
			fmt.Fprintln(os.Stderr, err)
			os.Exit(2)
		}
		var v Violation
		if err := json.Unmarshal(data, &v); err != nil {
			fmt.Fprintln(os.Stderr, err)
			os.Exit(2)
		}
		p := registry[v.Property]
		if p == nil {
			fmt.Fprintf(os.Stderr, "unknown property %q\n", v.Property)
			os.Exit(2)
		}
		fmt.Printf("replaying property=%s tier=%s seed=%d case=%d (recorded signature %s)\n", v.Property, v.Tier, v.Seed, v.Case, v.Signature)
		os.Exit(runProperty(p, v.Tier, v.Seed, verifDir, v.Case, true))
	}
	id := args[0]
	p := registry[id]
	if p == nil {
		fmt.Fprintf(os.Stderr, "unknown property %q\n", id)
		os.Exit(2)
	}
	tier := os.Getenv("VERIF_TIER")
	if tier == "" {
		tier = "quick"
	}
	seed := int64(1)
	if s := os.Getenv("VERIF_SEED"); s != "" {
		if n, err := strconv.ParseInt(s, 10, 64); err == nil {
			seed = n
		}
	}
	only := -1
	verbose := false
	for i := 1; i < len(args); i++ {
		switch args[i] {
		case "--tier":
			i++
			tier = args[i]
		case "--seed":
			i++
			seed, _ = strconv.ParseInt(args[i], 10, 64)
		case "--case":
			i++
			only, _ = strconv.Atoi(args[i])
		case "-v":
			verbose = true
		case "quick", "thorough":
			tier = args[i]
		}
	}
	if tier != "quick" && tier != "thorough" {
		fmt.Fprintf(os.Stderr, "bad tier %q\n", tier)
		os.Exit(2)
	}
	if f := os.Getenv("VERIF_HEAPPROF"); f != "" {
		// diagnostics only: write a heap profile after the given number of seconds
		secs, _ := strconv.Atoi(os.Getenv("VERIF_HEAPPROF_AFTER"))
		if secs <= 0 {
			secs = 60
		}
		go func() {
			time.Sleep(time.Duration(secs) * time.Second)
			if fh, err := os.Create(f); err == nil {
				runtime.GC()
				_ = pprof.WriteHeapProfile(fh)
				fh.Close()
			}
		}()
	}
	os.Exit(runProperty(p, tier, seed, verifDir, only, verbose))
}
