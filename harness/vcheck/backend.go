package main

// Scripted, protocol-polymorphic backend: records and strictly validates the request
// the transcoder hands to a service handler, then answers according to a script in
// whatever protocol it was addressed in.

import (
	"bytes"
	"context"
	"encoding/base64"
	"encoding/json"
	"fmt"
	"io"
	"net/http"
	"net/textproto"
	"net/url"
	"regexp"
	"strconv"
	"strings"

	"google.golang.org/genproto/googleapis/rpc/status"
	"google.golang.org/protobuf/encoding/protojson"
	"google.golang.org/protobuf/proto"
	"google.golang.org/protobuf/reflect/protoreflect"
	"google.golang.org/protobuf/types/known/anypb"
)

type RPCError struct {
	Code    int
	Msg     string
	Details []*anypb.Any
	// RawGrpcMessage, when set, is sent verbatim as grpc-message by gRPC / gRPC-Web backends (hostile backends only).
	RawGrpcMessage string
	// PadDetails: gRPC / gRPC-Web backends send grpc-status-details-bin as padded base64 (allowed by the gRPC spec).
	PadDetails bool
	// DetailsCode, when set, is the code inside grpc-status-details-bin (hostile backends: it contradicts grpc-status);
	// the details header is then sent even without details.
	DetailsCode *int
}

type BareHTTP struct {
	Status int
	CT     string
	Body   []byte
}

type BackendScript struct {
	Msgs       []proto.Message // response messages
	Comp       string          // compression the backend would like to use (only if the forwarded accept-encoding allows)
	FrameComp  []bool          // per response frame: compress (enveloped protocols)
	Err        *RPCError       // terminal error (nil = OK)
	ErrAfter   int             // messages sent before the error (capped to len(Msgs))
	TrailersOnly bool          // gRPC / gRPC-Web: error with no messages goes into the headers
	BadEnd      string         // in-body end of stream (gRPC-Web trailer frame, Connect end-stream message): "garbage", "empty", "corrupt" (with CompressEnd)
	EndAfterCut bool           // gRPC: after CutAt stopped the body, still send the (successful) trailers
	CompressEnd bool           // Connect stream / gRPC-Web: compress the end-of-stream (trailer) frame; Connect unary: compress the error body
	Headers    http.Header
	ForceHeaders http.Header // set (replacing whatever the protocol logic chose) at the moment the head is written
	Trailers   http.Header
	DeclareCase     int        // spelling of the names inside the Trailer declaration: 0 as set, 1 lower case, 2 upper case
	DeclareTrailers bool       // announce trailers in the Trailer header instead of using http.TrailerPrefix
	OKExtras   int             // gRPC / gRPC-Web success: 1 = also send an empty grpc-message, 2 = grpc-message "OK" and a grpc-status-details-bin of code 0 (both legal next to grpc-status: 0)
	Bare       *BareHTTP       // bare HTTP failure instead of an RPC response
	DeclLen    bool            // set Content-Length on un-enveloped responses
	LenDelta   int             // lie: declared length = actual + delta
	ZeroReads  bool            // issue a Read with an empty buffer before every real read
	ReadBuf    int             // request read buffer size (0 = 32 KiB)
	WriteSeg   []int           // response body segmentation (sizes); nil = one write per frame
	FlushEach  bool
	EmptyWrites bool
	OneWrite   bool            // hand the whole response body (all frames and the end frame) to one segWriter pass
	CutAt      int             // if >0: stop writing the response body after this many bytes and return
	Panic      any
	RespondFirst bool          // write the response before reading the request (streams)
	NoRead     bool
	BareCT     bool            // gRPC: answer with "application/grpc" (no +proto)
	HostilePayload []byte      // if set (and the backend may compress): the only response message, sent flagged/declared compressed as is
	RawBody    []byte          // if UseRaw: response body bytes written verbatim after the head
	UseRaw     bool
	RawFlagsEnd *byte
	WriteAfterEnd bool // keep writing after the response is complete
	HeaderTwice bool   // call WriteHeader a second time
	RawComplete bool // RawBody is the entire response body (nothing is appended; gRPC still sets its trailers)
	FailOnBad  bool  // behave like a real server: answer invalid_argument when the request is invalid or its body errored
}

type BackendObs struct {
	Invocations int
	Proto       string // detected protocol: connect-unary, connect-get, connect-stream, grpc, grpcweb, rest, unknown
	Method      string
	Path        string
	RawQuery    string
	ProtoMajor  int
	ProtoStr    string
	Header      http.Header
	ContentLen  int64
	Body        []byte
	ReadErr     error
	ReadCalls   int
	Codec       string
	Comp        string
	Accept      []string
	Timeout     string
	TimeoutHdr  string
	Msgs        []proto.Message
	RawMsgs     [][]byte
	FrameFlags  []byte
	Bad         []string // strict validator complaints
	Ctx         context.Context
	MethodInfo  *MethodInfo
	Binding     *Binding
	WriteErrs   []string
	UsedComp    string
	Direct      bool   // the handler was given the server's own ResponseWriter (pass-through)
	Written     []byte // response body bytes handed to the ResponseWriter
	Rejected    bool   // FailOnBad: the request was refused
	Endless     bool   // the request body never reached its end (read loop cut off)
}

func (o *BackendObs) bad(format string, args ...any) { o.Bad = append(o.Bad, fmt.Sprintf(format, args...)) }

// Backend implements http.Handler.
type Backend struct {
	Script  *BackendScript
	Obs     *BackendObs
	Methods map[string]*MethodInfo // by RPC path
	All     []*MethodInfo
	Known   []string // compressions the transcoder knows (for accept-encoding validation)
}

func newBackend(methods []*MethodInfo, script *BackendScript) *Backend {
	b := &Backend{Script: script, Obs: &BackendObs{}, Methods: map[string]*MethodInfo{}, All: methods}
	for _, m := range methods {
		b.Methods[m.Path] = m
	}
	return b
}

var (
	reGrpcTimeout    = regexp.MustCompile(`^[0-9]{1,8}[HMSmun]$`)
	reConnectTimeout = regexp.MustCompile(`^[0-9]{1,10}$`)
)

func splitList(vals []string) []string {
	var out []string
	for _, v := range vals {
		for _, p := range strings.Split(v, ",") {
			p = strings.TrimSpace(p)
			if p != "" {
				out = append(out, p)
			}
		}
	}
	return out
}

func (b *Backend) ServeHTTP(w http.ResponseWriter, r *http.Request) {
	o := b.Obs
	o.Invocations++
	if o.Invocations > 1 {
		return
	}
	o.Method, o.Path, o.RawQuery = r.Method, r.URL.Path, r.URL.RawQuery
	if r.URL.RawPath != "" {
		o.Path = r.URL.RawPath
	}
	o.ProtoMajor, o.ProtoStr = r.ProtoMajor, r.Proto
	o.Header = r.Header.Clone()
	o.ContentLen = r.ContentLength
	o.Ctx = r.Context()
	switch w.(type) {
	case *Recorder, noFlushRecorder:
		o.Direct = true
	}
	s := b.Script
	if s.Panic != nil {
		panic(s.Panic)
	}
	if s.RespondFirst {
		b.detect(r)
		b.respond(w, r)
		b.readAll(r)
		b.validate(r)
		return
	}
	if !s.NoRead {
		b.readAll(r)
	}
	b.detect(r)
	b.validate(r)
	b.respond(w, r)
	if s.HeaderTwice {
		w.WriteHeader(500)
	}
	if s.WriteAfterEnd {
		_, _ = w.Write([]byte("\x00\x00\x00\x00\x03abc"))
		if f, ok := w.(http.Flusher); ok {
			f.Flush()
		}
		w.Header().Set("X-Late", "1")
	}
}

func (b *Backend) readAll(r *http.Request) {
	o := b.Obs
	n := b.Script.ReadBuf
	if n <= 0 {
		n = 32 * 1024
	}
	buf := make([]byte, n)
	var all []byte
	for {
		if b.Script.ZeroReads {
			// a read into an empty buffer is legal and means nothing
			if k0, err0 := r.Body.Read(buf[:0]); err0 != nil && err0 != io.EOF {
				o.ReadErr = fmt.Errorf("zero-length read: %w", err0)
				break
			} else if k0 != 0 {
				o.ReadErr = fmt.Errorf("zero-length read returned %d bytes", k0)
				break
			} else if err0 == io.EOF {
				// acceptable only if the body really is at its end: the next read tells
			}
		}
		k, err := r.Body.Read(buf)
		o.ReadCalls++
		all = append(all, buf[:k]...)
		if err != nil {
			if err != io.EOF {
				o.ReadErr = err
			}
			break
		}
		if o.ReadCalls > 300_000 || len(all) > 1<<30 {
			// the body the transcoder hands over does not end (bounded progress: no scenario needs this many reads)
			o.Endless = true
			o.ReadErr = fmt.Errorf("request body did not end after %d reads / %d bytes", o.ReadCalls, len(all))
			break
		}
	}
	o.Body = all
}

func (b *Backend) detect(r *http.Request) {
	o := b.Obs
	ct := r.Header.Get("Content-Type")
	switch {
	case ct == "application/grpc-web" || strings.HasPrefix(ct, "application/grpc-web+"):
		o.Proto = "grpcweb"
	case ct == "application/grpc" || strings.HasPrefix(ct, "application/grpc+"):
		o.Proto = "grpc"
	case strings.HasPrefix(ct, "application/connect+"):
		o.Proto = "connect-stream"
	default:
		if mi := b.Methods[r.URL.Path]; mi != nil {
			if r.Method == http.MethodGet {
				o.Proto = "connect-get"
			} else {
				o.Proto = "connect-unary"
			}
		} else {
			o.Proto = "rest"
		}
	}
	if o.Proto != "rest" {
		o.MethodInfo = b.Methods[r.URL.Path]
	}
}

func (o *BackendObs) target() string {
	switch o.Proto {
	case "connect-unary", "connect-get", "connect-stream":
		return "connect"
	}
	return o.Proto
}

// validate applies the strict request validator of the detected protocol and decodes the messages.
func (b *Backend) validate(r *http.Request) {
	o := b.Obs
	h := o.Header
	for _, k := range []string{"Content-Type", "Content-Encoding", "Grpc-Encoding", "Connect-Content-Encoding",
		"Grpc-Timeout", "Connect-Timeout-Ms", "Content-Length", "Te", "Connect-Protocol-Version"} {
		if len(h.Values(k)) > 1 {
			o.bad("header %s has %d values", k, len(h.Values(k)))
		}
	}
	if cl := h.Get("Content-Length"); cl != "" {
		if n, err := strconv.Atoi(cl); err != nil || (o.ReadErr == nil && n != len(o.Body) && !b.Script.NoRead) {
			o.bad("Content-Length header %q but body has %d bytes", cl, len(o.Body))
		}
	}
	if o.ContentLen >= 0 && o.ReadErr == nil && !b.Script.NoRead && int64(len(o.Body)) != o.ContentLen {
		o.bad("request.ContentLength %d but body has %d bytes", o.ContentLen, len(o.Body))
	}
	ct := h.Get("Content-Type")
	switch o.Proto {
	case "grpc", "grpcweb", "connect-stream":
		b.validateEnveloped(ct)
	case "connect-unary":
		b.validateConnectUnary(ct)
	case "connect-get":
		b.validateConnectGet(ct)
	case "rest":
		b.validateREST(r, ct)
	}
}

func (b *Backend) decodeInto(raw []byte) {
	o := b.Obs
	if o.MethodInfo == nil {
		return
	}
	m := newMsg(o.MethodInfo.In())
	if err := decodeMsg(o.Codec, raw, m); err != nil {
		o.bad("request message %d does not decode with codec %q: %v", len(o.RawMsgs), o.Codec, err)
		o.Msgs = append(o.Msgs, nil)
	} else {
		o.Msgs = append(o.Msgs, m)
	}
	o.RawMsgs = append(o.RawMsgs, raw)
}

func (b *Backend) checkAccept(name string) {
	o := b.Obs
	o.Accept = splitList(o.Header.Values(name))
	for _, a := range o.Accept {
		if a != "gzip" && a != "zz" && a != "identity" {
			o.bad("%s offers %q which the transcoder cannot know", name, a)
		}
	}
}

func (b *Backend) validateEnveloped(ct string) {
	o := b.Obs
	h := o.Header
	if o.Method != "POST" {
		o.bad("%s request with method %s", o.Proto, o.Method)
	}
	if o.RawQuery != "" {
		o.bad("%s request with query string %q", o.Proto, o.RawQuery)
	}
	if o.MethodInfo == nil {
		o.bad("%s request for unknown RPC path %q", o.Proto, o.Path)
	}
	var encH, accH, toH string
	switch o.Proto {
	case "grpc":
		encH, accH, toH = "Grpc-Encoding", "Grpc-Accept-Encoding", "Grpc-Timeout"
		o.Codec = strings.TrimPrefix(ct, "application/grpc+")
		if ct == "application/grpc" {
			o.Codec = "proto"
		}
		if o.ProtoMajor != 2 {
			o.bad("gRPC request over HTTP/%d", o.ProtoMajor)
		}
		if te := h.Get("Te"); te != "trailers" {
			o.bad("gRPC request without te: trailers (got %q)", te)
		}
	case "grpcweb":
		encH, accH, toH = "Grpc-Encoding", "Grpc-Accept-Encoding", "Grpc-Timeout"
		o.Codec = strings.TrimPrefix(ct, "application/grpc-web+")
		if ct == "application/grpc-web" {
			o.Codec = "proto"
		}
	case "connect-stream":
		encH, accH, toH = "Connect-Content-Encoding", "Connect-Accept-Encoding", "Connect-Timeout-Ms"
		o.Codec = strings.TrimPrefix(ct, "application/connect+")
		if o.MethodInfo != nil && o.MethodInfo.Stream == stUnary {
			o.bad("connect streaming content-type for unary method")
		}
	}
	o.Comp = h.Get(encH)
	if o.Comp == "identity" {
		o.Comp = ""
	}
	o.TimeoutHdr, o.Timeout = toH, h.Get(toH)
	if len(h.Values(toH)) > 0 {
		re := reGrpcTimeout
		if o.Proto == "connect-stream" {
			re = reConnectTimeout
		}
		if !re.MatchString(o.Timeout) {
			o.bad("%s %q is not valid", toH, o.Timeout)
		}
	}
	b.checkAccept(accH)
	if ce := h.Get("Content-Encoding"); ce != "" && ce != "identity" {
		o.bad("Content-Encoding %q on an enveloped request", ce)
	}
	// left-overs from other protocols that contradict this form
	b.leftovers(encH, toH)
	frames, rest := parseFrames(o.Body)
	if len(rest) > 0 && o.ReadErr == nil {
		o.bad("request body ends inside a frame (%d stray bytes) without a read error", len(rest))
	}
	for i, f := range frames {
		o.FrameFlags = append(o.FrameFlags, f.Flags)
		if f.Flags != 0 && f.Flags != 1 {
			o.bad("request frame %d has invalid flags 0x%02x", i, f.Flags)
			continue
		}
		payload := f.Payload
		if f.Flags == 1 {
			if o.Comp == "" {
				o.bad("request frame %d flagged compressed but no %s declared", i, encH)
			} else if d, err := decompressWith(o.Comp, payload); err != nil {
				o.bad("request frame %d flagged compressed does not decompress with %q: %v", i, o.Comp, err)
				// no server can decode this frame
				o.Msgs = append(o.Msgs, nil)
				o.RawMsgs = append(o.RawMsgs, payload)
				continue
			} else {
				payload = d
			}
		}
		b.decodeInto(payload)
	}
}

// leftovers flags control headers of *other* protocols that contradict the target form.
func (b *Backend) leftovers(encH, toH string) {
	o := b.Obs
	h := o.Header
	for _, k := range []string{"Grpc-Encoding", "Connect-Content-Encoding", "Content-Encoding"} {
		if k == encH {
			continue
		}
		if v := h.Get(k); v != "" && v != "identity" && v != o.Comp {
			o.bad("left-over %s: %q contradicts body compression %q", k, v, o.Comp)
		}
	}
	for _, k := range []string{"Grpc-Timeout", "Connect-Timeout-Ms", "X-Server-Timeout"} {
		if k == toH {
			continue
		}
		if len(h.Values(k)) > 0 && h.Get(toH) == "" {
			o.bad("left-over %s: %q while the target form's %s is absent", k, h.Get(k), toH)
		}
	}
}

func (b *Backend) validateConnectUnary(ct string) {
	o := b.Obs
	h := o.Header
	if o.Method != "POST" {
		o.bad("connect unary request with method %s", o.Method)
	}
	if o.RawQuery != "" {
		o.bad("connect unary POST with query string %q", o.RawQuery)
	}
	if !strings.HasPrefix(ct, "application/") {
		o.bad("connect unary content-type %q", ct)
	}
	o.Codec = strings.TrimPrefix(ct, "application/")
	if o.MethodInfo != nil && o.MethodInfo.Stream != stUnary {
		o.bad("connect unary content-type for streaming method")
	}
	if v := h.Get("Connect-Protocol-Version"); len(h.Values("Connect-Protocol-Version")) > 0 && v != "1" {
		o.bad("Connect-Protocol-Version %q", v)
	}
	o.Comp = h.Get("Content-Encoding")
	if o.Comp == "identity" {
		o.Comp = ""
	}
	o.TimeoutHdr, o.Timeout = "Connect-Timeout-Ms", h.Get("Connect-Timeout-Ms")
	if len(h.Values("Connect-Timeout-Ms")) > 0 && !reConnectTimeout.MatchString(o.Timeout) {
		o.bad("Connect-Timeout-Ms %q is not valid", o.Timeout)
	}
	b.checkAccept("Accept-Encoding")
	b.leftovers("Content-Encoding", "Connect-Timeout-Ms")
	data, err := decompressBody(o.Comp, o.Body)
	if err != nil {
		o.bad("body does not match declared Content-Encoding %q: %v", o.Comp, err)
		o.Msgs = append(o.Msgs, nil) // a handler honouring the declared encoding cannot read this message
		o.RawMsgs = append(o.RawMsgs, o.Body)
		return
	}
	b.decodeInto(data)
}

func (b *Backend) validateConnectGet(ct string) {
	o := b.Obs
	h := o.Header
	q, err := url.ParseQuery(o.RawQuery)
	if err != nil {
		o.bad("connect GET query does not parse: %v", err)
	}
	if len(o.Body) > 0 {
		o.bad("connect GET with %d body bytes", len(o.Body))
	}
	if v, ok := q["connect"]; ok && (len(v) != 1 || v[0] != "v1") {
		o.bad("connect GET connect=%v", v)
	}
	if _, ok := q["connect"]; !ok && h.Get("Connect-Protocol-Version") != "1" {
		o.bad("connect GET without connect=v1 or version header")
	}
	o.Codec = q.Get("encoding")
	if o.Codec == "" {
		o.bad("connect GET without encoding parameter")
	}
	if ct != "" && ct != "application/"+o.Codec {
		o.bad("connect GET content-type header %q contradicts encoding=%s", ct, o.Codec)
	}
	o.Comp = q.Get("compression")
	if o.Comp == "identity" {
		o.Comp = ""
	}
	if ce := h.Get("Content-Encoding"); ce != "" && ce != "identity" && ce != o.Comp {
		o.bad("connect GET Content-Encoding header %q contradicts compression=%q", ce, o.Comp)
	}
	o.TimeoutHdr, o.Timeout = "Connect-Timeout-Ms", h.Get("Connect-Timeout-Ms")
	if len(h.Values("Connect-Timeout-Ms")) > 0 && !reConnectTimeout.MatchString(o.Timeout) {
		o.bad("Connect-Timeout-Ms %q is not valid", o.Timeout)
	}
	b.checkAccept("Accept-Encoding")
	b.leftovers("", "Connect-Timeout-Ms")
	if o.MethodInfo != nil && o.MethodInfo.Idem != idemNSE {
		o.bad("connect GET issued for a method that is not side-effect-free")
	}
	msg := q.Get("message")
	var data []byte
	switch b64 := q["base64"]; {
	case len(b64) == 0 || (len(b64) == 1 && b64[0] == "0"):
		data = []byte(msg)
	case len(b64) == 1 && b64[0] == "1":
		d, err := base64.RawURLEncoding.DecodeString(strings.TrimRight(msg, "="))
		if err != nil {
			o.bad("connect GET message is not URL-safe base64: %v", err)
		}
		data = d
	default:
		o.bad("connect GET base64=%v", b64)
	}
	if _, ok := q["message"]; !ok {
		o.bad("connect GET without message parameter")
	}
	if o.Comp != "" {
		d, err := decompressWith(o.Comp, data)
		if err != nil {
			o.bad("connect GET message does not decompress with %q: %v", o.Comp, err)
		} else {
			data = d
		}
	}
	b.decodeInto(data)
}

func (b *Backend) validateREST(r *http.Request, ct string) {
	o := b.Obs
	h := o.Header
	o.Codec = "json"
	o.Comp = h.Get("Content-Encoding")
	if o.Comp == "identity" {
		o.Comp = ""
	}
	o.TimeoutHdr, o.Timeout = "X-Server-Timeout", h.Get("X-Server-Timeout")
	if len(h.Values("X-Server-Timeout")) > 0 {
		if f, err := strconv.ParseFloat(o.Timeout, 64); err != nil || f < 0 {
			o.bad("X-Server-Timeout %q is not decimal seconds", o.Timeout)
		}
	}
	b.checkAccept("Accept-Encoding")
	b.leftovers("Content-Encoding", "X-Server-Timeout")
	body, err := decompressBody(o.Comp, o.Body)
	undecodable := false
	if err != nil {
		o.bad("REST body does not match declared Content-Encoding %q: %v", o.Comp, err)
		body = o.Body
		undecodable = true
	}
	rawPath := r.URL.EscapedPath()
	// find the binding: among all methods' bindings with this HTTP method
	var lastErr error
	for _, mi := range b.All {
		for _, bd := range mi.Rules {
			if bd.HTTPMethod != o.Method && bd.HTTPMethod != "*" {
				continue
			}
			if _, ok := matchBinding(bd, rawPath); !ok {
				continue
			}
			msg, err := bindREST(bd, rawPath, o.RawQuery, body, ct)
			if err != nil {
				lastErr = err
				continue
			}
			o.MethodInfo, o.Binding = mi, bd
			if undecodable {
				msg = nil
			}
			o.Msgs = append(o.Msgs, msg)
			o.RawMsgs = append(o.RawMsgs, body)
			if len(body) > 0 && !isHTTPBodyBinding(bd) && !jsonCT(ct) {
				o.bad("REST request with JSON body but content-type %q", ct)
			}
			return
		}
	}
	o.bad("REST request %s %s?%s matches no binding of the configured methods (last bind error: %v)", o.Method, rawPath, o.RawQuery, lastErr)
}

func isHTTPBodyBinding(bd *Binding) bool {
	in := bd.Method.Input()
	if bd.Body == "*" {
		return isHTTPBodyMsg(in)
	}
	if bd.Body == "" {
		return false
	}
	fd := in.Fields().ByName(protoreflect.Name(bd.Body))
	return fd != nil && fd.Message() != nil && isHTTPBodyMsg(fd.Message())
}

// ---------------------------------------------------------------------------
// Response side
// ---------------------------------------------------------------------------

type segWriter struct {
	w       http.ResponseWriter
	seg     []int
	idx     int
	flush   bool
	empty   bool
	cut     int // remaining bytes allowed (-1 = unlimited)
	errs    *[]string
	stopped bool
	written *[]byte
	hold    bool   // collect everything and write it in one segmented pass at the end
	pending []byte
}

func (s *segWriter) finish() {
	if s.hold {
		s.hold = false
		s.write(s.pending)
		s.pending = nil
	}
}

func (s *segWriter) write(p []byte) {
	if s.hold {
		s.pending = append(s.pending, p...)
		return
	}
	for len(p) > 0 && !s.stopped {
		n := len(p)
		if s.idx < len(s.seg) {
			if c := s.seg[s.idx]; c > 0 && c < n {
				n = c
			}
			s.idx++
		}
		if s.cut >= 0 {
			if s.cut == 0 {
				s.stopped = true
				return
			}
			if n > s.cut {
				n = s.cut
			}
			s.cut -= n
		}
		if s.empty {
			_, _ = s.w.Write(nil)
		}
		if s.written != nil {
			*s.written = append(*s.written, p[:n]...)
		}
		k, err := s.w.Write(p[:n])
		if err != nil {
			*s.errs = append(*s.errs, err.Error())
			s.stopped = true
			return
		}
		if k != n {
			*s.errs = append(*s.errs, fmt.Sprintf("short write %d of %d", k, n))
			s.stopped = true
			return
		}
		if s.flush {
			if f, ok := s.w.(http.Flusher); ok {
				f.Flush()
			}
		}
		p = p[n:]
	}
}

// forceHeaderWriter overrides response headers right before the head goes out (a backend lying about its content-type
// or declaring an encoding it does not use).
type forceHeaderWriter struct {
	http.ResponseWriter
	force http.Header
	done  bool
}

func (f *forceHeaderWriter) apply() {
	if !f.done {
		f.done = true
		for k, v := range f.force {
			f.ResponseWriter.Header()[k] = append([]string(nil), v...)
		}
	}
}
func (f *forceHeaderWriter) WriteHeader(code int) { f.apply(); f.ResponseWriter.WriteHeader(code) }
func (f *forceHeaderWriter) Write(p []byte) (int, error) {
	f.apply()
	return f.ResponseWriter.Write(p)
}
func (f *forceHeaderWriter) Flush() {
	if fl, ok := f.ResponseWriter.(http.Flusher); ok {
		fl.Flush()
	}
}

func (b *Backend) setTrailers(w http.ResponseWriter, tr http.Header) {
	for k, v := range tr {
		key := k
		if !b.Script.DeclareTrailers {
			key = http.TrailerPrefix + k
		}
		w.Header()[key] = append([]string(nil), v...)
	}
}

func connectErrBody(e *RPCError) []byte {
	type det struct {
		Type  string `json:"type"`
		Value string `json:"value"`
	}
	out := struct {
		Code    string `json:"code"`
		Message string `json:"message,omitempty"`
		Details []det  `json:"details,omitempty"`
	}{Code: codeName(e.Code), Message: e.Msg}
	for _, d := range e.Details {
		out.Details = append(out.Details, det{Type: strings.TrimPrefix(d.TypeUrl, "type.googleapis.com/"),
			Value: base64.RawStdEncoding.EncodeToString(d.Value)})
	}
	data, _ := json.Marshal(out)
	return data
}

func statusProto(e *RPCError) *status.Status {
	return &status.Status{Code: int32(e.Code), Message: e.Msg, Details: e.Details}
}

func grpcStatusInto(h http.Header, e *RPCError, prefix string) {
	if e == nil {
		h[prefix+"Grpc-Status"] = []string{"0"}
		return
	}
	h[prefix+"Grpc-Status"] = []string{strconv.Itoa(e.Code)}
	if e.RawGrpcMessage != "" {
		h[prefix+"Grpc-Message"] = []string{e.RawGrpcMessage}
	} else if e.Msg != "" {
		h[prefix+"Grpc-Message"] = []string{grpcPctEncode(e.Msg)}
	}
	if len(e.Details) > 0 || e.DetailsCode != nil {
		st := statusProto(e)
		if e.DetailsCode != nil {
			st.Code = int32(*e.DetailsCode)
		}
		bin, _ := proto.Marshal(st)
		enc := base64.RawStdEncoding
		if e.PadDetails {
			enc = base64.StdEncoding // receivers must accept padded and unpadded values
		}
		h[prefix+"Grpc-Status-Details-Bin"] = []string{enc.EncodeToString(bin)}
	}
}

// okExtrasInto adds the status keys some gRPC servers send next to a successful status.
func (s *BackendScript) okExtrasInto(tr http.Header) {
	if s.Err != nil {
		return
	}
	switch s.OKExtras {
	case 1:
		tr["Grpc-Message"] = []string{""}
	case 2:
		tr["Grpc-Message"] = []string{"OK"}
		tr["Grpc-Status-Details-Bin"] = []string{"CAA"} // google.rpc.Status{code: 0}
	}
}

func (b *Backend) respond(w http.ResponseWriter, r *http.Request) {
	s, o := b.Script, b.Obs
	if len(s.ForceHeaders) > 0 {
		w = &forceHeaderWriter{ResponseWriter: w, force: s.ForceHeaders}
	}
	h := w.Header()
	for k, v := range s.Headers {
		h[k] = append([]string(nil), v...)
	}
	sw := &segWriter{w: w, seg: s.WriteSeg, flush: s.FlushEach, empty: s.EmptyWrites, cut: -1, errs: &o.WriteErrs, written: &o.Written}
	if s.FailOnBad && (len(o.Bad) > 0 || o.ReadErr != nil || b.wrongCount()) {
		o.Rejected = true
		cp := *s
		cp.Err, cp.ErrAfter, cp.Msgs, cp.Bare, cp.UseRaw = &RPCError{Code: 3, Msg: "backend: invalid request"}, 0, nil, nil, false
		s = &cp
	}
	if s.CutAt > 0 {
		sw.cut = s.CutAt
	}
	sw.hold = s.OneWrite
	defer sw.finish()
	if s.Bare != nil {
		if s.Bare.CT != "" {
			h.Set("Content-Type", s.Bare.CT)
		}
		w.WriteHeader(s.Bare.Status)
		sw.write(s.Bare.Body)
		return
	}
	codec := o.Codec
	if codec != "proto" && codec != "json" && codec != "jsonu" {
		codec = "proto"
	}
	comp := ""
	if s.Comp != "" && contains(o.Accept, s.Comp) {
		comp = s.Comp
	}
	o.UsedComp = comp
	if s.HostilePayload != nil && comp != "" {
		// one message that is declared compressed and does not inflate (or inflates enormously), framed for this protocol
		cp := *s
		cp.UseRaw, cp.RawComplete, cp.Err, cp.FrameComp = true, false, nil, nil
		switch o.Proto {
		case "grpc", "grpcweb", "connect-stream":
			cp.RawBody = appendFrame(nil, 1, s.HostilePayload)
			if o.Proto == "connect-stream" {
				cp.RawBody = appendFrame(cp.RawBody, 2, []byte("{}"))
			}
		default:
			cp.RawBody = s.HostilePayload
		}
		s = &cp
	}
	nmsgs := len(s.Msgs)
	if s.Err != nil && s.ErrAfter < nmsgs {
		nmsgs = s.ErrAfter
	}
	encode := func(i int) []byte {
		data, err := encodeMsg(codec, s.Msgs[i])
		if err != nil {
			panic(fmt.Sprintf("backend cannot encode scripted message: %v", err))
		}
		return data
	}
	frames := func() []byte {
		var out []byte
		for i := 0; i < nmsgs; i++ {
			data := encode(i)
			var fl byte
			if comp != "" && (i >= len(s.FrameComp) || s.FrameComp[i]) {
				data, fl = compressWith(comp, data), 1
			}
			out = appendFrame(out, fl, data)
		}
		return out
	}
	if s.DeclareTrailers && (o.Proto == "grpc") {
		var keys []string
		for k := range s.Trailers {
			keys = append(keys, k)
		}
		keys = append(keys, "Grpc-Status", "Grpc-Message", "Grpc-Status-Details-Bin")
		switch s.DeclareCase {
		case 1: // HTTP/2 style
			for i := range keys {
				keys[i] = strings.ToLower(keys[i])
			}
		case 2:
			for i := range keys {
				keys[i] = strings.ToUpper(keys[i])
			}
		}
		h.Set("Trailer", strings.Join(keys, ", "))
	}
	switch o.Proto {
	case "grpc", "grpcweb":
		ct := "application/grpc"
		if o.Proto == "grpcweb" {
			ct = "application/grpc-web"
		}
		if !(s.BareCT && codec == "proto") {
			ct += "+" + codec
		}
		h.Set("Content-Type", ct)
		if comp != "" {
			h.Set("Grpc-Encoding", comp)
		}
		if s.Err != nil && nmsgs == 0 && s.TrailersOnly {
			grpcStatusInto(h, s.Err, "")
			for k, v := range s.Trailers {
				h[k] = append([]string(nil), v...)
			}
			w.WriteHeader(200)
			return
		}
		w.WriteHeader(200)
		if s.UseRaw {
			sw.write(s.RawBody)
		} else {
			sw.write(frames())
		}
		if (sw.stopped && !(s.EndAfterCut && o.Proto == "grpc")) || (s.UseRaw && s.RawComplete && o.Proto != "grpc") {
			return
		}
		if o.Proto == "grpc" {
			tr := http.Header{}
			for k, v := range s.Trailers {
				tr[k] = v
			}
			grpcStatusInto(tr, s.Err, "")
			s.okExtrasInto(tr)
			b.setTrailers(w, tr)
			return
		}
		tr := http.Header{}
		for k, v := range s.Trailers {
			tr[k] = v
		}
		grpcStatusInto(tr, s.Err, "")
		s.okExtrasInto(tr)
		var tb bytes.Buffer
		for _, k := range sortedKeys(tr) {
			for _, v := range tr[k] {
				fmt.Fprintf(&tb, "%s: %s\r\n", strings.ToLower(k), v)
			}
		}
		fl := byte(0x80)
		tdata := tb.Bytes()
		switch s.BadEnd {
		case "garbage":
			tdata = []byte("this line has no colon\r\n")
		case "empty":
			tdata = nil
		}
		if comp != "" && s.CompressEnd {
			tdata, fl = compressWith(comp, tdata), 0x81
			if s.BadEnd == "corrupt" {
				tdata = append(append([]byte(nil), tdata[:10]...), []byte("not-deflate-data")...)
			}
		}
		if s.RawFlagsEnd != nil {
			fl = *s.RawFlagsEnd
		}
		sw.write(appendFrame(nil, fl, tdata))
	case "connect-stream":
		h.Set("Content-Type", "application/connect+"+codec)
		if comp != "" {
			h.Set("Connect-Content-Encoding", comp)
		}
		w.WriteHeader(200)
		if s.UseRaw {
			sw.write(s.RawBody)
			return
		}
		sw.write(frames())
		if sw.stopped {
			return
		}
		end := map[string]any{}
		if s.Err != nil {
			end["error"] = json.RawMessage(connectErrBody(s.Err))
		}
		if len(s.Trailers) > 0 {
			end["metadata"] = s.Trailers
		}
		data, _ := json.Marshal(end)
		fl := byte(2)
		switch s.BadEnd {
		case "garbage":
			data = []byte(`{"error": {"code": `)
		case "empty":
			data = nil
		}
		if comp != "" && s.CompressEnd {
			data, fl = compressWith(comp, data), 3
			if s.BadEnd == "corrupt" {
				data = append(append([]byte(nil), data[:10]...), []byte("not-deflate-data")...)
			}
		}
		if s.RawFlagsEnd != nil {
			fl = *s.RawFlagsEnd
		}
		sw.write(appendFrame(nil, fl, data))
	case "connect-unary", "connect-get":
		for k, v := range s.Trailers {
			h["Trailer-"+k] = append([]string(nil), v...)
		}
		var body []byte
		code := 200
		if s.Err != nil {
			h.Set("Content-Type", "application/json")
			body = connectErrBody(s.Err)
			code = httpFromCode[s.Err.Code]
			if code == 0 {
				code = 500
			}
			if comp != "" && s.CompressEnd {
				body = compressWith(comp, body)
				h.Set("Content-Encoding", comp)
			}
		} else {
			h.Set("Content-Type", "application/"+codec)
			if len(s.Msgs) > 0 {
				body = encode(0)
			}
			if comp != "" && (len(s.FrameComp) == 0 || s.FrameComp[0]) {
				body = compressWith(comp, body)
				h.Set("Content-Encoding", comp)
			}
		}
		if s.UseRaw {
			body = s.RawBody
		}
		if s.DeclLen {
			h.Set("Content-Length", strconv.Itoa(len(body)+s.LenDelta))
		}
		w.WriteHeader(code)
		sw.write(body)
	case "rest":
		var body []byte
		code := 200
		if s.Err != nil {
			h.Set("Content-Type", "application/json")
			body, _ = protojson.Marshal(statusProto(s.Err))
			code = httpFromCode[s.Err.Code]
			if code == 0 {
				code = 500
			}
		} else {
			ct := "application/json"
			if len(s.Msgs) > 0 && o.Binding != nil {
				var err error
				body, ct, err = restResponseBody(o.Binding, s.Msgs[0])
				if err != nil {
					panic(fmt.Sprintf("backend cannot render REST response: %v", err))
				}
			} else if len(s.Msgs) > 0 {
				body, _ = protojson.Marshal(s.Msgs[0])
			}
			if ct != "" {
				h.Set("Content-Type", ct)
			}
			if comp != "" && (len(s.FrameComp) == 0 || s.FrameComp[0]) {
				body = compressWith(comp, body)
				h.Set("Content-Encoding", comp)
			}
		}
		if s.UseRaw {
			body = s.RawBody
		}
		if s.DeclLen {
			h.Set("Content-Length", strconv.Itoa(len(body)+s.LenDelta))
		}
		w.WriteHeader(code)
		sw.write(body)
	default:
		w.WriteHeader(500)
	}
}

// restResponseBody renders the HTTP body a REST backend returns for msg under bd.
func restResponseBody(bd *Binding, msg proto.Message) ([]byte, string, error) {
	m := msg.ProtoReflect()
	if bd.RespBody == "" || bd.RespBody == "*" {
		if isHTTPBodyMsg(m.Descriptor()) {
			return m.Get(m.Descriptor().Fields().ByName("data")).Bytes(),
				m.Get(m.Descriptor().Fields().ByName("content_type")).String(), nil
		}
		data, err := protojson.Marshal(msg)
		return data, "application/json", err
	}
	fd := m.Descriptor().Fields().ByName(protoreflect.Name(bd.RespBody))
	if fd == nil {
		return nil, "", fmt.Errorf("no field %q", bd.RespBody)
	}
	data, ct, err := fieldJSON(m, fd)
	if err == nil && data == nil && !isHTTPBodyMsg(fd.Message()) {
		data = []byte("{}") // absent message field: a REST server answers with an empty object
	}
	return data, ct, err
}

func canonHeader(h http.Header) http.Header {
	out := http.Header{}
	for k, v := range h {
		out[textproto.CanonicalMIMEHeaderKey(k)] = append(out[textproto.CanonicalMIMEHeaderKey(k)], v...)
	}
	return out
}

// wrongCount: a unary or server-streaming method must receive exactly one request message.
func (b *Backend) wrongCount() bool {
	o := b.Obs
	if o.MethodInfo == nil || b.Script.NoRead || b.Script.RespondFirst {
		return false
	}
	if o.MethodInfo.Stream == stUnary || o.MethodInfo.Stream == stServer {
		return len(o.RawMsgs) != 1
	}
	return false
}
