package main

import (
	"bufio"
	"bytes"
	"context"
	"crypto/tls"
	"encoding/binary"
	"errors"
	"fmt"
	"io"
	"math/rand/v2"
	"net"
	"net/http"
	"net/http/httptest"
	"strings"
	"sync"
	"sync/atomic"
	"time"

	"connectrpc.com/vanguard"
	"golang.org/x/net/http2"
	"golang.org/x/net/http2/h2c"
	"google.golang.org/protobuf/proto"
)

func init() {
	register(&Property{
		ID:    "C16",
		Level: "exploration",
		Rule: "two monitors. (1) deterministic, in memory: a streaming handler writes response message k with one Write and no Flush of its own; when that Write returns, the client-side recorder must already hold every byte of " +
			"the client-form frame k and must have seen a Flush after it; on the request side an instrumented body records which client message each read touches: bytes of message j may only be requested once the handler has obtained " +
			"messages 0..j-1 (no look-ahead). (2) real HTTP/2 (h2c) strict ping-pong over loopback: client and handler alternate for R rounds, each sending its next message only after receiving the peer's previous one; every round must complete " +
			"(bounded progress; a stall is confirmed by an isolated re-run). Cases: client forms gRPC, gRPC-Web, Connect streaming x targets Connect streaming, gRPC, gRPC-Web x same/different codec x same/different compression " +
			"(all four reader/writer adapters) x rounds {1,2,10,100} x sizes {0,1,1 KiB,70 KiB} plus zero-length payloads x handler reading exact sizes or through a 32 KiB buffer x stream shapes (server-stream, client-stream, bidi; half of the h2c bidi handlers read and write on separate goroutines, so a Read is pending while they answer). non-trivial = at least 2 rounds; distinct by (leg, form, target, codecs, compression, rounds, size, shape)",
		Assume: []string{"Connect-unary and REST clients are a control group only: they are not required to stream", "wall-clock is used only as a stall detector (30 s per exchange, confirmed in isolation), never as a latency verdict"},
		N:      func(t string) int { return tierN(t, 1200, 20000) },
		Run:    runC16,
		Finish: func(c *Ctx) { c16Close() },
		MinimaFor: func(t string) map[string]int {
			return map[string]int{"mem-streams": tierN(t, 800, 14000), "mem-messages-checked": tierN(t, 5000, 90000), "mem-zero-length-payload-reframed": tierN(t, 8, 150), "h2c-exchanges": tierN(t, 60, 1000), "h2c-rounds": tierN(t, 400, 8000)}
		},
	})
}

type c16Case struct {
	form    ClientForm
	target  string
	codecC  string
	codecS  string
	compC   string
	compS   []string
	rounds  int
	size    int
	empty   bool // messages carry no marker either: zero-length payloads
	unaligned int // > 0: each handler Write also carries this many bytes of the next frame
	bigReads bool // the handler reads the request body through a 32 KiB buffer instead of exact-size reads
	shape   int // stServer, stClient, stBidi
	duplex  bool // bidi over h2c: the handler reads the request on one goroutine and writes the response on another (as grpc-go's ServeHTTP and reverse proxies do), so a Read for message i+1 is pending while response i is written
	method  *MethodInfo
	cfg     *SvcConfig
	reqs    []proto.Message
	resps   []proto.Message
}

func (k *c16Case) String() string {
	return fmt.Sprintf("%s->%s codec %s->%s comp %q->%v rounds=%d size=%d empty=%v bigreads=%v unaligned=%d duplex=%v shape=%s", k.form, k.target, k.codecC, k.codecS, k.compC, k.compS, k.rounds, k.size, k.empty, k.bigReads, k.unaligned, k.duplex, streamName(k.shape))
}

func genC16(r *rand.Rand, h2cLeg bool) *c16Case {
	kitchen()
	k := &c16Case{}
	k.form = pick(r, []ClientForm{FGRPC, FGRPCWeb, FConnectStream})
	k.target = pick(r, []string{"connect", "grpc", "grpcweb"})
	k.codecC = pick(r, []string{"proto", "json"})
	k.codecS = pick(r, []string{"proto", "json"})
	k.compC = pick(r, []string{"", "gzip"})
	k.compS = pick(r, [][]string{{}, {"gzip"}})
	k.rounds = pick(r, []int{1, 2, 2, 10, 10, 100})
	k.size = pick(r, []int{0, 1, 1024, 70 << 10})
	if k.rounds == 100 && k.size > 1024 {
		k.size = 1024
	}
	k.shape = pick(r, []int{stServer, stClient, stBidi, stBidi})
	k.method = kitchenInfo[map[int]string{stServer: "ServerStream", stClient: "ClientStream", stBidi: "Bidi"}[k.shape]]
	k.cfg = &SvcConfig{Protocols: []string{k.target}, Codecs: []string{k.codecS}, Comps: k.compS}
	nreq, nresp := k.rounds, k.rounds
	if k.shape == stServer {
		nreq = 1
	}
	if k.shape == stClient {
		nresp = 1
	}
	// every fifth scenario sends messages with no field set: a zero-length payload behind the envelope
	k.empty = k.size == 0 && chance(r, 60)
	k.bigReads = chance(r, 50)
	k.duplex = h2cLeg && k.shape == stBidi && chance(r, 50)
	if chance(r, 25) {
		k.unaligned = pick(r, []int{1, 3, 5, 7})
	}
	mk := func(i int, tag string) proto.Message {
		if k.empty {
			return newMsg(k.method.In())
		}
		m := sizedMessage(k.method.In(), k.size, false, r)
		setMarker(m, fmt.Sprintf("%s%d", tag, i))
		return m
	}
	for i := 0; i < nreq; i++ {
		k.reqs = append(k.reqs, mk(i, "q"))
	}
	for i := 0; i < nresp; i++ {
		k.resps = append(k.resps, mk(i, "p"))
	}
	return k
}

// ---- streaming handler (shared by both legs) -----------------------------------

type frameReader struct {
	r   io.Reader
	raw int
}

func (f *frameReader) next() (flags byte, payload []byte, err error) {
	var hdr [5]byte
	if _, err = io.ReadFull(f.r, hdr[:]); err != nil {
		return 0, nil, err
	}
	n := binary.BigEndian.Uint32(hdr[1:])
	payload = make([]byte, n)
	if _, err = io.ReadFull(f.r, payload); err != nil {
		return 0, nil, err
	}
	f.raw += 5 + int(n)
	return hdr[0], payload, nil
}

// c16Handler plays the backend of a streaming RPC in whatever enveloped protocol it is addressed in.
type c16Handler struct {
	k          *c16Case
	obtained   int                                 // request messages fully received so far
	afterWrite func(i int)                         // in-memory monitor: called right after Write(frame i) returned
	got        []string                            // markers of the request messages received
	err        error
	mu         sync.Mutex
}

func (h *c16Handler) setObtained(n int) {
	h.mu.Lock()
	h.obtained = n
	h.mu.Unlock()
}

func (h *c16Handler) getObtained() int {
	h.mu.Lock()
	defer h.mu.Unlock()
	return h.obtained
}

func (h *c16Handler) ServeHTTP(w http.ResponseWriter, r *http.Request) {
	k := h.k
	ct := r.Header.Get("Content-Type")
	var proto_, codec, encH string
	switch {
	case strings.HasPrefix(ct, "application/grpc-web"):
		proto_, codec, encH = "grpcweb", strings.TrimPrefix(ct, "application/grpc-web+"), "Grpc-Encoding"
	case strings.HasPrefix(ct, "application/grpc"):
		proto_, codec, encH = "grpc", strings.TrimPrefix(ct, "application/grpc+"), "Grpc-Encoding"
	case strings.HasPrefix(ct, "application/connect+"):
		proto_, codec, encH = "connect", strings.TrimPrefix(ct, "application/connect+"), "Connect-Content-Encoding"
	default:
		h.err = fmt.Errorf("handler addressed with content-type %q", ct)
		w.WriteHeader(500)
		return
	}
	reqComp := r.Header.Get(encH)
	w.Header().Set("Content-Type", ct)
	respComp := ""
	if strings.Contains(r.Header.Get(strings.Replace(encH, "Encoding", "Accept-Encoding", 1)), "gzip") || strings.Contains(r.Header.Get("Grpc-Accept-Encoding"), "gzip") || strings.Contains(r.Header.Get("Connect-Accept-Encoding"), "gzip") {
		respComp = "gzip"
		w.Header().Set(encH, "gzip")
	}
	fr := &frameReader{r: r.Body}
	if k.bigReads {
		// like io.Copy, bufio or a reverse proxy: every Read offers far more room than one message needs, so a
		// reader that fills the buffer instead of returning with the message it has would wait for the next one
		fr.r = bufio.NewReaderSize(r.Body, 32<<10)
	}
	readOne := func() bool {
		fl, payload, err := fr.next()
		if err != nil {
			if !errors.Is(err, io.EOF) {
				h.err = fmt.Errorf("handler read: %w", err)
			}
			return false
		}
		if fl&1 != 0 {
			if payload, err = decompressWith(reqComp, payload); err != nil {
				h.err = fmt.Errorf("handler decompress: %w", err)
				return false
			}
		}
		m := newMsg(k.method.In())
		if err := decodeMsg(codec, payload, m); err != nil {
			h.err = fmt.Errorf("handler decode: %w", err)
			return false
		}
		h.got = append(h.got, getMarker(m))
		h.setObtained(len(h.got))
		return true
	}
	started := false
	frameOf := func(i int) ([]byte, error) {
		data, err := encodeMsg(codec, k.resps[i])
		if err != nil {
			return nil, err
		}
		fl := byte(0)
		if respComp != "" && !k.empty {
			// (empty-message scenarios send their frames uncompressed - the per-message flag allows it - so that the
			// payload really is zero bytes long)
			data, fl = compressWith(respComp, data), 1
		}
		return appendFrame(nil, fl, data), nil
	}
	carry := 0
	writeOne := func(i int) bool {
		chunk, err := frameOf(i)
		if err != nil {
			h.err = err
			return false
		}
		if k.unaligned > 0 {
			// writes not aligned with message boundaries (a proxying handler): this Write ends message i and already
			// carries the first bytes of frame i+1
			chunk = chunk[carry:]
			carry = 0
			if i+1 < len(k.resps) {
				if next, err := frameOf(i + 1); err == nil {
					carry = k.unaligned
					if carry > len(next) {
						carry = len(next)
					}
					chunk = append(append([]byte(nil), chunk...), next[:carry]...)
				}
			}
		}
		if !started {
			w.WriteHeader(200)
			started = true
		}
		if _, err := w.Write(chunk); err != nil {
			h.err = fmt.Errorf("handler write %d: %w", i, err)
			return false
		}
		if h.afterWrite != nil {
			h.afterWrite(i)
		} else if f, ok := w.(http.Flusher); ok {
			f.Flush() // real servers flush after each message; the in-memory leg deliberately does not
		}
		return true
	}
	switch k.shape {
	case stServer:
		if !readOne() {
			if h.err == nil {
				h.err = errors.New("no request message")
			}
			break
		}
		for i := range k.resps {
			if !writeOne(i) {
				break
			}
		}
	case stClient:
		for readOne() {
		}
		if h.err == nil {
			writeOne(0)
		}
	case stBidi:
		if k.duplex {
			got := make(chan bool)
			go func() {
				defer close(got)
				for {
					ok := readOne() // the next Read is already pending while the writer below answers the previous message
					got <- ok
					if !ok {
						return
					}
				}
			}()
			for i := 0; i < len(k.resps); i++ {
				if ok := <-got; !ok {
					if h.err == nil {
						h.err = fmt.Errorf("request stream ended after %d messages", len(h.got))
					}
					break
				}
				if !writeOne(i) {
					break
				}
			}
			for range got { // the reader ends with the request stream
			}
			break
		}
		for i := 0; i < len(k.resps); i++ {
			if !readOne() {
				if h.err == nil {
					h.err = fmt.Errorf("request stream ended after %d messages", len(h.got))
				}
				break
			}
			if !writeOne(i) {
				break
			}
		}
	}
	if !started {
		w.WriteHeader(200)
	}
	// terminal disposition
	status := "0"
	msg := ""
	if h.err != nil {
		status, msg = "13", "handler: "+h.err.Error()
	}
	switch proto_ {
	case "grpc":
		w.Header().Set(http.TrailerPrefix+"Grpc-Status", status)
		w.Header().Set(http.TrailerPrefix+"Grpc-Message", grpcPctEncode(msg))
	case "grpcweb":
		_, _ = w.Write(appendFrame(nil, 0x80, []byte("grpc-status: "+status+"\r\ngrpc-message: "+grpcPctEncode(msg)+"\r\n")))
	case "connect":
		body := "{}"
		if h.err != nil {
			body = `{"error":{"code":"internal","message":"handler failed"}}`
		}
		_, _ = w.Write(appendFrame(nil, 2, []byte(body)))
	}
}

func (k *c16Case) clientReq() *ClientReq {
	return &ClientReq{Form: k.form, M: k.method, Codec: k.codecC, Comp: k.compC, Accept: []string{"gzip"}, Msgs: k.reqs, FrameComp: repeatBool(true, len(k.reqs)), HTTP2: true}
}

// ---- leg 1: in memory -------------------------------------------------------------

func c16InMemory(c *Ctx, i int, r *rand.Rand) {
	k := genC16(r, false)
	t, err := buildTranscoder(k.cfg, false)
	if err != nil {
		c.Violate(i, "harness/config", err.Error())
		return
	}
	creq := k.clientReq()
	built, err := creq.Build(r)
	if err != nil {
		return
	}
	spans := frameSpans(built.Raw)
	rec := newRecorder()
	h := &c16Handler{k: k}
	var violations []string
	// response side: after Write(frame i) returned, frame i must be complete and flushed at the client
	h.afterWrite = func(idx int) {
		body := rec.Body.Bytes()
		frames, _ := parseFrames(body)
		ndata := 0
		end := 0
		for _, f := range frames {
			if (k.form == FConnectStream && f.Flags&2 != 0) || (k.form == FGRPCWeb && f.Flags&0x80 != 0) {
				break
			}
			ndata++
			end += 5 + len(f.Payload)
			if ndata == idx+1 {
				break
			}
		}
		if ndata < idx+1 {
			violations = append(violations, fmt.Sprintf("response message %d: the handler's Write returned but the client has only %d complete frames (%d body bytes)", idx, ndata, len(body)))
			return
		}
		flushed := false
		for _, ev := range rec.Events {
			if ev.Kind == 'F' && ev.BodyLen >= end {
				flushed = true
			}
		}
		if !flushed {
			violations = append(violations, fmt.Sprintf("response message %d: written to the client but not flushed when the handler's Write returned", idx))
		}
	}
	// request side: no look-ahead
	built.Body.Chunks = nil
	built.Body.Gate = func(pos, n int) {
		j := 0
		for j < len(spans) && pos >= spans[j].start+5+spans[j].plen {
			j++
		}
		if j < len(spans) && j > h.getObtained() {
			violations = append(violations, fmt.Sprintf("request side: bytes of client message %d requested while the handler has only obtained %d messages", j, h.getObtained()))
		}
	}
	// frame-sized reads: the transport delivers one frame's worth at most
	for _, sp := range spans {
		built.Body.Chunks = append(built.Body.Chunks, 5+sp.plen)
	}
	ctx := context.WithValue(context.Background(), ctxKey{}, http.Handler(h))
	var panicked any
	func() {
		defer func() { panicked = recover() }()
		t.ServeHTTP(rec, built.Req.WithContext(ctx))
	}()
	rec.Finish()
	c.Eval()
	c.Count("mem-streams")
	if k.empty && k.codecC == "proto" && k.codecS == "proto" && k.form.Protocol() != k.target {
		c.Count("mem-zero-length-payload-reframed")
	}
	c.CountN("mem-messages-checked", int64(len(k.resps)+len(k.reqs)))
	if k.rounds >= 2 {
		c.Nontrivial("mem|" + k.String())
	}
	if i < 2 {
		c.Sample(map[string]any{"case": i, "leg": "in-memory", "scenario": k.String(), "recorder_events": len(rec.Events), "flushes": rec.Flushes})
	}
	out := ParseResponse(creq, rec)
	detail := func() string {
		return fmt.Sprintf("%s\nhandler error: %v; handler received %d request messages; client outcome: %s; flushes seen: %d\n%s", k, h.err, len(h.got), out.Summary(), rec.Flushes, strings.Join(violations, "\n"))
	}
	if panicked != nil {
		c.Violate(i, "transcoder-panic", fmt.Sprintf("%v\n%s", panicked, detail()))
		return
	}
	passThrough := k.form.Protocol() == k.target && k.codecC == k.codecS && (k.compC == "" || contains(k.compS, k.compC))
	if passThrough {
		// the handler talks to the server's ResponseWriter directly; flushing is its own business
		var kept []string
		for _, v := range violations {
			if strings.HasPrefix(v, "request side") {
				kept = append(kept, v)
			}
		}
		violations = kept
		c.Count("mem-pass-through")
	}
	if len(violations) > 0 {
		kind := "response-not-forwarded-per-message"
		if strings.HasPrefix(violations[0], "request side") {
			kind = "request-look-ahead"
		}
		c.Violate(i, fmt.Sprintf("%s/%s->%s", kind, k.form, k.target), detail())
		return
	}
	if h.err != nil || !out.OK() || len(out.Msgs) != len(k.resps) || len(h.got) != len(k.reqs) {
		c.Violate(i, fmt.Sprintf("stream-did-not-complete/%s->%s", k.form, k.target), detail())
	}
}

// ---- leg 2: real HTTP/2 --------------------------------------------------------------

var c16ConfirmedStalls int32

var (
	c16Mu      sync.Mutex
	c16Servers = map[string]*httptest.Server{}
	c16Client  *http.Client
)

func c16Close() {
	c16Mu.Lock()
	defer c16Mu.Unlock()
	for _, s := range c16Servers {
		s.Close()
	}
	c16Servers = map[string]*httptest.Server{}
}

func c16Server(cfg *SvcConfig) (*httptest.Server, error) {
	c16Mu.Lock()
	defer c16Mu.Unlock()
	if c16Client == nil {
		c16Client = &http.Client{Transport: &http2.Transport{AllowHTTP: true, DialTLSContext: func(ctx context.Context, network, addr string, _ *tls.Config) (net.Conn, error) {
			var d net.Dialer
			return d.DialContext(ctx, network, addr)
		}}}
	}
	if s := c16Servers[cfg.Key()]; s != nil {
		return s, nil
	}
	t, err := buildTranscoder(cfg, false)
	if err != nil {
		return nil, err
	}
	s := httptest.NewServer(h2c.NewHandler(c16Inject{t}, &http2.Server{}))
	c16Servers[cfg.Key()] = s
	return s, nil
}

// c16Inject attaches the per-exchange handler (looked up by header) to the request context.
type c16Inject struct{ t *vanguard.Transcoder }

var c16Handlers sync.Map

func (x c16Inject) ServeHTTP(w http.ResponseWriter, r *http.Request) {
	id := r.Header.Get("X-C16-Exchange")
	h, _ := c16Handlers.Load(id)
	if h == nil {
		w.WriteHeader(597)
		return
	}
	ctx := context.WithValue(r.Context(), ctxKey{}, h.(http.Handler))
	x.t.ServeHTTP(w, r.WithContext(ctx))
}

type exchangeResult struct {
	rounds  int
	err     error
	stalled bool
}

func c16Exchange(k *c16Case, id string, timeout time.Duration) exchangeResult {
	srv, err := c16Server(k.cfg)
	if err != nil {
		return exchangeResult{err: err}
	}
	h := &c16Handler{k: k}
	c16Handlers.Store(id, h)
	defer c16Handlers.Delete(id)
	creq := k.clientReq()
	creq.Msgs = nil
	built, err := creq.Build(rand.New(rand.NewPCG(1, 2)))
	if err != nil {
		return exchangeResult{err: err}
	}
	pr, pw := io.Pipe()
	ctx, cancel := context.WithCancel(context.Background())
	defer cancel()
	req, _ := http.NewRequestWithContext(ctx, "POST", srv.URL+k.method.Path, pr)
	req.Header = built.Req.Header.Clone()
	req.Header.Set("X-C16-Exchange", id)
	req.Header.Del("Content-Length")
	res := make(chan exchangeResult, 1)
	go func() {
		frame := func(m proto.Message) []byte {
			data, _ := encodeMsg(k.codecC, m)
			fl := byte(0)
			if k.compC != "" {
				data, fl = compressWith(k.compC, data), 1
			}
			return appendFrame(nil, fl, data)
		}
		// the first request message is written concurrently with waiting for the response head
		first := make(chan error, 1)
		go func() {
			_, err := pw.Write(frame(k.reqs[0]))
			first <- err
		}()
		if k.shape == stClient {
			// response headers only arrive once the handler answers, i.e. after the last request message:
			// the round trips run while Do is still waiting
			type doRes struct {
				resp *http.Response
				err  error
			}
			done := make(chan doRes, 1)
			go func() {
				resp, err := c16Client.Do(req)
				done <- doRes{resp, err}
			}()
			if err := <-first; err != nil {
				res <- exchangeResult{err: fmt.Errorf("client write 0: %w", err)}
				return
			}
			rounds := 0
			for i := 0; i < k.rounds; i++ {
				if i > 0 {
					if _, err := pw.Write(frame(k.reqs[i])); err != nil {
						res <- exchangeResult{rounds: rounds, err: fmt.Errorf("client write %d: %w", i, err)}
						return
					}
				}
				deadline := time.Now().Add(timeout)
				for h.getObtained() < i+1 {
					if time.Now().After(deadline) {
						res <- exchangeResult{rounds: rounds, stalled: true, err: fmt.Errorf("handler did not obtain request message %d although it was sent completely", i)}
						return
					}
					time.Sleep(200 * time.Microsecond)
				}
				rounds++
			}
			pw.Close()
			d := <-done
			if d.err != nil {
				res <- exchangeResult{rounds: rounds, err: fmt.Errorf("client Do: %w", d.err)}
				return
			}
			_, _ = io.Copy(io.Discard, d.resp.Body)
			d.resp.Body.Close()
			res <- exchangeResult{rounds: rounds}
			return
		}
		resp, err := c16Client.Do(req)
		if err != nil {
			res <- exchangeResult{err: fmt.Errorf("client Do: %w", err)}
			return
		}
		defer resp.Body.Close()
		if err := <-first; err != nil {
			res <- exchangeResult{err: fmt.Errorf("client write 0: %w", err)}
			return
		}
		fr := &frameReader{r: resp.Body}
		rounds := 0
		readResp := func(i int) error {
			fl, payload, err := fr.next()
			if err != nil {
				return fmt.Errorf("client read response %d: %w", i, err)
			}
			if (k.form == FConnectStream && fl&2 != 0) || (k.form == FGRPCWeb && fl&0x80 != 0) {
				return fmt.Errorf("client got the end of the stream instead of response %d: %q", i, clip(payload, 200))
			}
			if fl&1 != 0 {
				enc := resp.Header.Get("Grpc-Encoding") + resp.Header.Get("Connect-Content-Encoding")
				if payload, err = decompressWith(enc, payload); err != nil {
					return err
				}
			}
			m := newMsg(k.method.Out())
			if err := decodeMsg(k.codecC, payload, m); err != nil {
				return err
			}
			if !k.empty && getMarker(m) != fmt.Sprintf("p%d", i) {
				return fmt.Errorf("response %d carries marker %q", i, getMarker(m))
			}
			return nil
		}
		switch k.shape {
		case stBidi:
			for i := 0; i < k.rounds; i++ {
				if i > 0 {
					if _, err := pw.Write(frame(k.reqs[i])); err != nil {
						res <- exchangeResult{rounds: rounds, err: fmt.Errorf("client write %d: %w", i, err)}
						return
					}
				}
				if err := readResp(i); err != nil {
					res <- exchangeResult{rounds: rounds, err: err}
					return
				}
				rounds++
			}
			pw.Close()
		case stServer:
			pw.Close()
			for i := 0; i < k.rounds; i++ {
				if err := readResp(i); err != nil {
					res <- exchangeResult{rounds: rounds, err: err}
					return
				}
				rounds++
			}
		case stClient:
			// the handler must obtain message i before the client sends message i+1
			for i := 0; i < k.rounds; i++ {
				if i > 0 {
					if _, err := pw.Write(frame(k.reqs[i])); err != nil {
						res <- exchangeResult{rounds: rounds, err: fmt.Errorf("client write %d: %w", i, err)}
						return
					}
				}
				deadline := time.Now().Add(timeout)
				for h.getObtained() < i+1 {
					if time.Now().After(deadline) {
						res <- exchangeResult{rounds: rounds, stalled: true, err: fmt.Errorf("handler did not obtain request message %d although it was sent completely", i)}
						return
					}
					time.Sleep(200 * time.Microsecond)
				}
				rounds++
			}
			pw.Close()
			if err := readResp(0); err != nil {
				res <- exchangeResult{rounds: rounds, err: err}
				return
			}
		}
		// drain to the end so the stream finishes cleanly
		_, _ = io.Copy(io.Discard, resp.Body)
		res <- exchangeResult{rounds: rounds}
	}()
	select {
	case out := <-res:
		return out
	case <-time.After(timeout + 5*time.Second):
		cancel()
		pw.CloseWithError(errors.New("exchange abandoned"))
		return exchangeResult{stalled: true, err: errors.New("exchange did not finish in time")}
	}
}

func c16H2C(c *Ctx, i int, r *rand.Rand) {
	k := genC16(r, true)
	if k.rounds == 100 && !c.Thorough() && chance(r, 50) {
		k.rounds = 10
		k.reqs, k.resps = k.reqs[:minInt(10, len(k.reqs))], k.resps[:minInt(10, len(k.resps))]
	}
	id := fmt.Sprintf("x%d-%d", i, r.Uint64())
	budget := 30 * time.Second
	if atomic.LoadInt32(&c16ConfirmedStalls) >= 2 {
		budget = 5 * time.Second // the run has failed already; do not spend two minutes on every further stall
	}
	out := c16Exchange(k, id, budget)
	c.Eval()
	c.Count("h2c-exchanges")
	c.CountN("h2c-rounds", int64(out.rounds))
	if k.rounds >= 2 {
		c.Nontrivial("h2c|" + k.String())
	}
	if i%97 == 4 {
		c.Sample(map[string]any{"case": i, "leg": "h2c", "scenario": k.String(), "rounds_completed": out.rounds})
	}
	if out.err == nil && out.rounds == k.rounds {
		return
	}
	if out.stalled && atomic.LoadInt32(&c16ConfirmedStalls) >= 2 {
		c.Violate(i, fmt.Sprintf("ping-pong-stalled/%s->%s/%s", k.form, k.target, streamName(k.shape)), fmt.Sprintf("%s\n%d rounds, %v (not re-run alone: two stalls were confirmed in isolation earlier in this run)", k, out.rounds, out.err))
		return
	}
	if out.stalled {
		// confirm in isolation with a longer budget before calling it a deadlock
		again := c16Exchange(k, id+"-retry", 90*time.Second)
		if !(again.err == nil && again.rounds == k.rounds) {
			atomic.AddInt32(&c16ConfirmedStalls, 1)
		}
		if again.err == nil && again.rounds == k.rounds {
			c.Inconclusive(fmt.Sprintf("h2c exchange %s stalled once (%v) but completed when re-run alone", k, out.err))
			return
		}
		c.Violate(i, fmt.Sprintf("ping-pong-stalled/%s->%s/%s", k.form, k.target, streamName(k.shape)), fmt.Sprintf("%s\nfirst run: %d rounds, %v\nisolated re-run: %d rounds, %v", k, out.rounds, out.err, again.rounds, again.err))
		return
	}
	c.Violate(i, fmt.Sprintf("ping-pong-failed/%s->%s/%s", k.form, k.target, streamName(k.shape)), fmt.Sprintf("%s\ncompleted %d of %d rounds: %v", k, out.rounds, k.rounds, out.err))
}

func minInt(a, b int) int {
	if a < b {
		return a
	}
	return b
}

func runC16(c *Ctx, i int, r *rand.Rand) {
	if i%10 == 9 {
		c16H2C(c, i, r)
		return
	}
	c16InMemory(c, i, r)
}

var _ = bytes.MinRead
