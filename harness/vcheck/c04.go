package main

import (
	"bytes"
	"fmt"
	"math/rand/v2"
	"strings"

	"google.golang.org/protobuf/proto"
	"google.golang.org/protobuf/types/known/anypb"
)

func init() {
	register(&Property{
		ID:    "C04",
		Level: "exploration",
		Rule: "case i enumerates (stratum, client form, target protocol, code, message, details, position) from small domains: stratum A = RPC errors with codes 1..16 and " +
			"out-of-range codes (17, 18, 99, 2^31-1, 2^32-1) x message pool (ASCII, %, CR/LF, quotes, 2/3/4-byte UTF-8, 4 KiB) x 0..3 typed details (grpc-status-details-bin padded or unpadded) x position " +
			"(trailers-only / after 0,1,3 messages); stratum B = bare HTTP statuses (all of 300..599 in thorough) x body kinds x backends; stratum C = transcoder rejections. " +
			"oracle: client-decoded (code, message, details) equals the backend's, HTTP status equals the published table, out-of-range codes are relayed or become a server error, never a panic. " +
			"non-trivial = client and backend protocols differ; distinct by (form, target, code, message class, details, position)",
		Assume: []string{"code tables in model_codes.go copied from the Connect and gRPC specifications", "messages with leading/trailing blanks are not generated (HTTP field parsing trims them in every gRPC implementation)"},
		N:      func(t string) int { return tierN(t, 12000, 240000) },
		Run:    runC04,
		MinimaFor: func(t string) map[string]int {
			return map[string]int{"rpc-error-compared": tierN(t, 5000, 100000), "bare-http-compared": tierN(t, 1500, 30000), "out-of-range": tierN(t, 300, 6000)}
		},
	})
}

var c04Methods = []string{"Unary", "ServerStream", "GetParams", "PostParams", "Bidi"}

var c04Msgs = []string{"", "boom", "100% wrong", "line1\r\nline2", "say \"hi\"", "é", "日本語 エラー", "😀 oops", "a%2Fb", "tab\there",
	"back\\slash", "~!@#$^&*()_+", "nul\x00byte", "del\x7fchar", c04AllASCII, "semi;colon, comma", "<html>&amp;</html>", strings.TrimSpace(strings.Repeat("long message ", 330))}

// every 7-bit byte except NUL, so that each one's escaping rule is observed
var c04AllASCII = func() string {
	b := make([]byte, 0, 127)
	for c := 1; c < 128; c++ {
		b = append(b, byte(c))
	}
	return string(b)
}()

func msgClass(m string) string {
	switch {
	case m == "":
		return "empty"
	case len(m) > 1000:
		return "long"
	}
	for _, r := range m {
		if r > 0x7f {
			return "non-ascii"
		}
		if r < 0x20 || r == '%' || r == '"' || r == '\\' {
			return "needs-escape"
		}
	}
	return "ascii"
}

func sameDetails(want []*anypb.Any, got []Detail) string {
	if len(want) != len(got) {
		return fmt.Sprintf("details: want %d got %d", len(want), len(got))
	}
	for i := range want {
		wt := strings.TrimPrefix(want[i].TypeUrl, "type.googleapis.com/")
		if wt != got[i].Type {
			return fmt.Sprintf("detail %d type: want %q got %q", i, wt, got[i].Type)
		}
		if !bytes.Equal(want[i].Value, got[i].Value) {
			// compare semantically: deterministic marshalling may reorder map entries
			a, err1 := want[i].UnmarshalNew()
			b := proto.Clone(a)
			if err1 == nil {
				proto.Reset(b)
				if err2 := proto.Unmarshal(got[i].Value, b); err2 == nil && proto.Equal(a, b) {
					continue
				}
			}
			return fmt.Sprintf("detail %d value differs", i)
		}
	}
	return ""
}

func runC04(c *Ctx, i int, r *rand.Rand) {
	kitchen()
	stratum := i % 10
	cfg := genConfig(r)
	m := kitchenInfo[pick(r, c04Methods)]
	forms := formsFor(m)
	form := pick(r, forms)
	target := resolveTarget(cfg, form.Protocol())
	for tries := 0; target == "rest" && (len(m.Rules) == 0 || m.Stream != stUnary); tries++ {
		cfg = genConfig(r)
		target = resolveTarget(cfg, form.Protocol())
	}
	creq := &ClientReq{Form: form, M: m, Codec: pick(r, []string{"proto", "json"}), HTTP2: true, Accept: pick(r, [][]string{nil, {"gzip"}})}
	if form == FREST {
		creq.Codec = "json"
		b := pick(r, m.Rules)
		msg, rr, ch := genForBinding(r, b, "c04")
		if msg == nil {
			return
		}
		creq.Binding, creq.Rest, creq.Render, creq.Msgs = b, rr, ch, []proto.Message{msg}
	} else {
		n := 1
		if m.Stream == stBidi {
			n = r.IntN(3)
		}
		for k := 0; k < n; k++ {
			if target == "rest" {
				msg, _, _ := genForBinding(r, m.Rules[0], "c04")
				if msg == nil {
					return
				}
				creq.Msgs = append(creq.Msgs, msg)
			} else {
				creq.Msgs = append(creq.Msgs, genMessage(r, m.In(), genOpts{density: 5}))
			}
		}
	}
	script := &BackendScript{Comp: pick(r, []string{"", "gzip"}), DeclareTrailers: chance(r, 30), DeclareCase: pick(r, []int{0, 1, 2}), FlushEach: chance(r, 30)}
	nresp := 1
	if m.Stream == stServer || m.Stream == stBidi {
		nresp = pick(r, []int{0, 1, 3})
	}
	for k := 0; k < nresp; k++ {
		script.Msgs = append(script.Msgs, genMessage(r, m.Out(), genOpts{density: 5}))
	}
	s := &Scenario{Cfg: cfg, Req: creq, Script: script, Target: target}
	switch {
	case stratum < 6: // RPC errors
		code := 1 + (i/10)%16
		oor := false
		if stratum == 5 {
			code = pick(r, []int{17, 18, 99, 1<<31 - 1, 1<<32 - 1, 17, 20})
			oor = true
		}
		e := &RPCError{Code: code, Msg: c04Msgs[(i/160)%len(c04Msgs)]}
		if chance(r, 30) {
			e.Msg = pick(r, c04Msgs)
		}
		for k, n := 0, pick(r, []int{0, 0, 1, 2, 3}); k < n; k++ {
			a, _ := anypb.New(pick(r, detailPool)(r))
			e.Details = append(e.Details, a)
		}
		e.PadDetails = chance(r, 35)
		script.Err = e
		script.ErrAfter = r.IntN(len(script.Msgs) + 1)
		if m.Stream == stUnary || m.Stream == stClient {
			script.ErrAfter = 0
		}
		script.TrailersOnly = chance(r, 50)
		script.CompressEnd = chance(r, 30)
		ex, err := runRPC(cfg, creq, script, r, nil)
		if err != nil {
			c.Violate(i, "harness/build", err.Error())
			return
		}
		c.Eval()
		if i < 2 {
			c.Sample(map[string]any{"case": i, "stratum": "rpc-error", "describe": ex.Describe()})
		}
		checkC04RPC(c, i, s, ex, oor)
		checkLeak(c, i, s, ex)
	case stratum < 9: // bare HTTP failure
		status := pick(r, []int{301, 400, 401, 403, 404, 405, 409, 418, 429, 499, 500, 501, 502, 503, 504, 599})
		if c.Thorough() || chance(r, 30) {
			status = 300 + (i/10)%300
		}
		bodyKind := (i / 10) % 5
		bare := &BareHTTP{Status: status}
		switch bodyKind {
		case 0:
		case 1:
			bare.CT, bare.Body = "text/plain", []byte("upstream connect error or disconnect/reset before headers")
		case 2:
			bare.CT, bare.Body = "application/json", []byte(`{"not":"a status","code":"teapot"}`)
		case 3:
			bare.CT, bare.Body = "text/html", []byte("<html><body><h1>502 Bad Gateway</h1></body></html>")
		case 4:
			bare.CT, bare.Body = "application/json", []byte(`{"error":{"message":"x"}}`)
		}
		script.Bare = bare
		ex, err := runRPC(cfg, creq, script, r, nil)
		if err != nil {
			c.Violate(i, "harness/build", err.Error())
			return
		}
		c.Eval()
		checkC04Bare(c, i, s, ex)
		checkLeak(c, i, s, ex)
	default: // transcoder rejections: the code must be the one the HTTP mapping assigns
		creq.Extra = map[string][]string{}
		kind := (i / 10) % 4
		switch kind {
		case 0:
			creq.RawTarget = "/verif.v1.Kitchen/NoSuchMethod"
			if form == FREST {
				creq.RawTarget = "/v1/no/such/route"
			}
		case 1:
			creq.HTTPMethod = "DELETE"
			if form == FREST {
				creq.HTTPMethod = "LOCK"
			}
		case 2:
			creq.Codec = "yaml"
			if form == FREST {
				creq.Extra["Content-Type"] = []string{"application/yaml"}
			}
		case 3:
			creq.Extra[map[ClientForm]string{FConnectStream: "Connect-Content-Encoding", FGRPC: "Grpc-Encoding", FGRPCWeb: "Grpc-Encoding"}[form]] = []string{"br"}
			if !form.Enveloped() {
				creq.Extra = map[string][]string{"Content-Encoding": {"br"}}
			}
		}
		if kind == 2 && creq.Form != FREST {
			// encode with a real codec but announce an unknown one
			creq.Codec = "proto"
			ct := map[ClientForm]string{FConnectUnary: "application/yaml", FConnectGet: "", FConnectStream: "application/connect+yaml", FGRPC: "application/grpc+yaml", FGRPCWeb: "application/grpc-web+yaml"}[form]
			if ct == "" {
				return
			}
			creq.Extra["Content-Type"] = []string{ct}
		}
		ex, err := runRPC(cfg, creq, script, r, nil)
		if err != nil {
			return // unparsable request line etc.: not a rejection scenario
		}
		c.Eval()
		checkC04Reject(c, i, s, ex, kind)
	}
}

func checkC04RPC(c *Ctx, i int, s *Scenario, e *Exec, oor bool) {
	feat := fmt.Sprintf("%s<-%s", s.Req.Form, orNone(e.Backend.Obs.target()))
	if e.Panic != nil {
		c.Violate(i, "transcoder-panic/"+panicSite(e.Stack), fmt.Sprintf("%v\n%s", e.Panic, e.Describe()))
		return
	}
	bo, o := e.Backend.Obs, e.Out
	if bo.Invocations == 0 {
		c.Count("rpc-error:not-invoked")
		return
	}
	want := s.Script.Err
	if bo.target() != s.Req.Form.Protocol() {
		pos := "after-messages"
		if s.Script.ErrAfter == 0 {
			pos = "first"
			if s.Script.TrailersOnly {
				pos = "trailers-only"
			}
		}
		c.Nontrivial(fmt.Sprintf("%s|%d|%s|%d|%s", feat, want.Code, msgClass(want.Msg), len(want.Details), pos))
	}
	if o.Kind == "ok" {
		c.Violate(i, "error-became-success/"+feat, e.Describe())
		return
	}
	if oor {
		c.Count("out-of-range")
		// relayed numerically, or mapped to a server error
		if o.Code == want.Code || o.Code == 2 || o.Code == 13 || (o.Kind == "httperror" && o.Status >= 500) {
			return
		}
		if (s.Req.Form == FConnectUnary || s.Req.Form == FConnectGet || s.Req.Form == FREST) && o.Status >= 500 {
			return // the HTTP status, which these protocols lead with, says server error
		}
		c.Violate(i, fmt.Sprintf("out-of-range-code-mangled/%s", feat), fmt.Sprintf("backend code %d arrived as %d (status %d)\n%s", want.Code, o.Code, o.Status, e.Describe()))
		return
	}
	c.Count("rpc-error-compared")
	if passThrough(s, bo) {
		c.Count("rpc-error:pass-through")
	}
	if o.Kind != "error" {
		c.Violate(i, "rpc-error-not-in-client-protocol/"+feat, e.Describe())
		return
	}
	if o.Code != want.Code {
		c.Violate(i, fmt.Sprintf("code-changed/%s/%s", feat, codeName(want.Code)), fmt.Sprintf("backend code %s, client saw %s\n%s", codeName(want.Code), codeName(o.Code), e.Describe()))
	}
	if o.Msg != want.Msg {
		c.Violate(i, fmt.Sprintf("message-changed/%s/%s", feat, msgClass(want.Msg)), fmt.Sprintf("backend message %q, client saw %q\n%s", clipS(want.Msg), clipS(o.Msg), e.Describe()))
	}
	if d := sameDetails(want.Details, o.Details); d != "" {
		c.Violate(i, "details-changed/"+feat, fmt.Sprintf("%s\n%s", d, e.Describe()))
	}
	if wantStatus, ok := httpFromCode[want.Code]; ok && (s.Req.Form == FConnectUnary || s.Req.Form == FConnectGet || s.Req.Form == FREST) && o.Status != wantStatus {
		c.Violate(i, fmt.Sprintf("http-status-not-from-table/%s/%s", feat, codeName(want.Code)), fmt.Sprintf("status %d, table says %d\n%s", o.Status, wantStatus, e.Describe()))
	}
	for _, mf := range o.Malformed {
		if !passThrough(s, bo) {
			c.Violate(i, "invalid-error-response/"+feat+"/"+classify(mf), fmt.Sprintf("%s\n%s", mf, e.Describe()))
		}
	}
}

func clipS(s string) string {
	if len(s) > 120 {
		return s[:120] + "..."
	}
	return s
}

func checkC04Bare(c *Ctx, i int, s *Scenario, e *Exec) {
	feat := fmt.Sprintf("%s<-%s", s.Req.Form, orNone(e.Backend.Obs.target()))
	if e.Panic != nil {
		c.Violate(i, "transcoder-panic/"+panicSite(e.Stack), fmt.Sprintf("%v\n%s", e.Panic, e.Describe()))
		return
	}
	bo, o := e.Backend.Obs, e.Out
	if bo.Invocations == 0 {
		return
	}
	st := s.Script.Bare.Status
	if bo.Proto == "rest" && st/100 == 2 {
		return // a 2xx is a success for a REST backend
	}
	c.Count("bare-http-compared")
	if bo.target() != s.Req.Form.Protocol() {
		c.Nontrivial(fmt.Sprintf("%s|bare|%d|%s", feat, st, s.Script.Bare.CT))
	}
	if o.Kind == "ok" {
		c.Violate(i, "bare-http-failure-became-success/"+feat, e.Describe())
		return
	}
	want := codeFromHTTP(st)
	if o.Code != want {
		c.Violate(i, fmt.Sprintf("bare-http-code/%s/%d-should-be-%s-got-%s", feat, st, codeName(want), codeName(o.Code)), e.Describe())
	}
	if !passThrough(s, bo) {
		for _, mf := range o.Malformed {
			c.Violate(i, "invalid-error-response/"+feat+"/"+classify(mf), fmt.Sprintf("%s\n%s", mf, e.Describe()))
		}
	}
}

func checkC04Reject(c *Ctx, i int, s *Scenario, e *Exec, kind int) {
	feat := fmt.Sprintf("%s/kind%d", s.Req.Form, kind)
	if e.Panic != nil {
		c.Violate(i, "transcoder-panic/"+panicSite(e.Stack), fmt.Sprintf("%v\n%s", e.Panic, e.Describe()))
		return
	}
	o := e.Out
	if e.Backend.Obs.Invocations > 0 {
		c.Count("reject:dispatched-anyway")
		return // e.g. the codec is acceptable after all; C18 owns dispatch counting
	}
	c.Count("reject-compared")
	if o.Kind == "ok" {
		c.Violate(i, "rejection-reported-as-success/"+feat, e.Describe())
		return
	}
	if o.Status < 400 && o.Kind == "httperror" {
		c.Violate(i, "rejection-without-error-status/"+feat, e.Describe())
	}
	// the RPC code a client derives must agree with the HTTP status where both are visible
	if o.Kind == "error" && (s.Req.Form == FConnectUnary || s.Req.Form == FConnectGet || s.Req.Form == FREST) {
		if want, ok := httpFromCode[o.Code]; ok && want != o.Status {
			c.Violate(i, "rejection-status-code-disagree/"+feat, e.Describe())
		}
	}
	wantStatus := map[int]int{0: 404, 1: 405}[kind]
	if kind == 1 && s.Req.Form == FConnectGet {
		wantStatus = 0 // a non-GET request with GET-style Connect markers is unclassifiable; any 4xx will do
	}
	if wantStatus != 0 && o.Kind == "httperror" && o.Status != wantStatus {
		c.Violate(i, fmt.Sprintf("rejection-status/%s/want-%d-got-%d", feat, wantStatus, o.Status), e.Describe())
	}
}
