package main

// Byte-level protocol encoders/decoders that the harness controls completely:
// envelopes, compression, codecs. None of this calls into vanguard or connect-go.

import (
	"bytes"
	"compress/gzip"
	"encoding/binary"
	"errors"
	"fmt"
	"io"

	"connectrpc.com/connect"
	"google.golang.org/protobuf/encoding/protojson"
	"google.golang.org/protobuf/proto"
)

type Frame struct {
	Flags   byte
	Payload []byte
}

func appendFrame(dst []byte, flags byte, payload []byte) []byte {
	var hdr [5]byte
	hdr[0] = flags
	binary.BigEndian.PutUint32(hdr[1:], uint32(len(payload)))
	dst = append(dst, hdr[:]...)
	return append(dst, payload...)
}

func encodeFrames(frames []Frame) []byte {
	var out []byte
	for _, f := range frames {
		out = appendFrame(out, f.Flags, f.Payload)
	}
	return out
}

// parseFrames splits b into complete frames; rest holds trailing bytes that do not
// form a complete frame (non-empty rest = truncated stream).
func parseFrames(b []byte) (frames []Frame, rest []byte) {
	for len(b) >= 5 {
		n := int(binary.BigEndian.Uint32(b[1:5]))
		if n < 0 || len(b)-5 < n {
			break
		}
		frames = append(frames, Frame{Flags: b[0], Payload: b[5 : 5+n]})
		b = b[5+n:]
	}
	return frames, b
}

func gz(b []byte) []byte {
	var buf bytes.Buffer
	w := gzip.NewWriter(&buf)
	_, _ = w.Write(b)
	_ = w.Close()
	return buf.Bytes()
}

func gunzip(b []byte) ([]byte, error) {
	r, err := gzip.NewReader(bytes.NewReader(b))
	if err != nil {
		return nil, err
	}
	out, err := io.ReadAll(r)
	if err != nil {
		return nil, err
	}
	return out, r.Close()
}

// "zz": a second, deliberately simple compression algorithm the transcoder does not
// know by default: magic "ZZ" + uvarint length + bytes XOR 0x5a.
func zz(b []byte) []byte {
	out := make([]byte, 0, len(b)+8)
	out = append(out, 'Z', 'Z')
	out = binary.AppendUvarint(out, uint64(len(b)))
	for _, c := range b {
		out = append(out, c^0x5a)
	}
	return out
}

func unzz(b []byte) ([]byte, error) {
	if len(b) < 3 || b[0] != 'Z' || b[1] != 'Z' {
		return nil, errors.New("zz: bad magic")
	}
	n, k := binary.Uvarint(b[2:])
	if k <= 0 {
		return nil, errors.New("zz: bad length")
	}
	body := b[2+k:]
	if uint64(len(body)) != n {
		return nil, fmt.Errorf("zz: length %d != %d", len(body), n)
	}
	out := make([]byte, len(body))
	for i, c := range body {
		out[i] = c ^ 0x5a
	}
	return out, nil
}

type zzCompressor struct {
	w   io.Writer
	buf bytes.Buffer
}

func (z *zzCompressor) Write(p []byte) (int, error) { return z.buf.Write(p) }
func (z *zzCompressor) Close() error {
	_, err := z.w.Write(zz(z.buf.Bytes()))
	z.buf.Reset()
	return err
}
func (z *zzCompressor) Reset(w io.Writer) { z.w = w; z.buf.Reset() }

type zzDecompressor struct {
	r   io.Reader
	out *bytes.Reader
	err error
}

func (z *zzDecompressor) Read(p []byte) (int, error) {
	if z.err != nil {
		return 0, z.err
	}
	if z.out == nil {
		all, err := io.ReadAll(z.r)
		if err != nil {
			z.err = err
			return 0, err
		}
		dec, err := unzz(all)
		if err != nil {
			z.err = err
			return 0, err
		}
		z.out = bytes.NewReader(dec)
	}
	return z.out.Read(p)
}
func (z *zzDecompressor) Close() error { return nil }
func (z *zzDecompressor) Reset(r io.Reader) error {
	z.r, z.out, z.err = r, nil, nil
	return nil
}

func newZZCompressor() connect.Compressor     { return &zzCompressor{} }
func newZZDecompressor() connect.Decompressor { return &zzDecompressor{} }

func compressWith(name string, b []byte) []byte {
	switch name {
	case "gzip":
		return gz(b)
	case "zz":
		return zz(b)
	case "", "identity":
		return b
	}
	panic("unknown compression " + name)
}

// decompressBody is decompressWith for un-enveloped bodies: an empty body carries an empty
// message whatever Content-Encoding says (connect-go, vanguard and gRPC peers all skip
// decompression of zero bytes), so it is not held against the declared encoding.
func decompressBody(name string, b []byte) ([]byte, error) {
	if len(b) == 0 {
		return b, nil
	}
	return decompressWith(name, b)
}

func decompressWith(name string, b []byte) ([]byte, error) {
	switch name {
	case "gzip":
		return gunzip(b)
	case "zz":
		return unzz(b)
	case "", "identity":
		return b, nil
	}
	return nil, fmt.Errorf("unknown compression %q", name)
}

// reference codecs ------------------------------------------------------------

func encodeMsg(codec string, msg proto.Message) ([]byte, error) {
	switch codec {
	case "proto":
		return proto.Marshal(msg)
	case "json", "jsonu":
		return protojson.MarshalOptions{Resolver: privResolver{}}.Marshal(msg)
	}
	return nil, fmt.Errorf("unknown codec %q", codec)
}

func decodeMsg(codec string, data []byte, into proto.Message) error {
	switch codec {
	case "proto":
		return proto.Unmarshal(data, into)
	case "json", "jsonu":
		if len(data) == 0 {
			// an empty body is not valid JSON; report it as such
			return errors.New("empty JSON document")
		}
		return protojson.UnmarshalOptions{Resolver: privResolver{}}.Unmarshal(data, into)
	}
	return fmt.Errorf("unknown codec %q", codec)
}
