package main

import (
	"google.golang.org/protobuf/types/known/anypb"
	"context"
	"fmt"
	"math/rand/v2"
	"net/http"
	"reflect"
	"strings"
	"sync"

	"connectrpc.com/vanguard"
	"connectrpc.com/vanguard/vanguardgrpc"
	"google.golang.org/grpc"
	"google.golang.org/grpc/codes"
	_ "google.golang.org/grpc/encoding/gzip"
	"google.golang.org/grpc/status"
	"google.golang.org/protobuf/proto"
	"google.golang.org/protobuf/reflect/protodesc"
	"google.golang.org/protobuf/reflect/protoreflect"
	"google.golang.org/protobuf/reflect/protoregistry"
	"google.golang.org/protobuf/types/descriptorpb"
	"google.golang.org/protobuf/types/dynamicpb"

	testv1 "connectrpc.com/vanguard/internal/gen/vanguard/test/v1"
)

func init() {
	register(&Property{
		ID:    "C20",
		Level: "exploration",
		Rule: "metamorphic differential: scenario(i) (as in C01/C04/C07, restricted to the Library and Content services: REST routes, HttpBody, all client forms, success and error scripts) is executed against " +
			"T_gen (services registered by name, generated Go types) and against a schema-source variant chosen by i: (a) descriptors re-built with protodesc.NewFile from the serialised FileDescriptorProtos in a private registry, " +
			"with google/api/annotations.proto private too, so the http options are dynamic extension values; (b) the same plus a type resolver that knows nothing (forces the dynamicpb fallback); (c) a resolver that knows only some of the types; " +
			"(d) a service descriptor that reports no parent file. Every 16th case: a proto2 schema with an extension range, loaded dynamically, registered with GlobalTypes as resolver vs with the default resolver; payloads carry extensions nobody defines (binary field numbers in the range, JSON \"[name]\" keys) in requests and responses. Every 8th case runs the gRPC leg instead: vanguardgrpc.NewTranscoder(grpcServer) versus vanguard.NewTranscoder(NewService(name, grpcServer)) with the documented defaults, over " +
			"grpc.Server.ServeHTTP in memory. oracle: equal canonical outcomes on both sides (backend-observed protocol, request line, decoded messages and validity; client-observed kind, code, status, decoded messages, validity), " +
			"decoded by the harness with one descriptor set. non-trivial = a REST leg or the JSON codec is involved; distinct by (variant, cell, codecs, script shape)",
		Assume: []string{"error message texts are not compared (they may name Go types)"},
		N:      func(t string) int { return tierN(t, 12000, 240000) },
		Run:    runC20,
		MinimaFor: func(t string) map[string]int {
			return map[string]int{"pairs-compared": tierN(t, 9000, 180000), "grpc-leg-compared": tierN(t, 900, 18000), "rest-or-json": tierN(t, 5000, 100000), "ext-pairs-re-encoded-ok": tierN(t, 100, 2000)}
		},
	})
}

// ---- schema variants -------------------------------------------------------

type c20Schema struct {
	lib, content protoreflect.ServiceDescriptor
	types        *dynamicpb.Types
}

var (
	c20Once    sync.Once
	c20Private *c20Schema
	c20Err     error
)

// privateSchema re-creates test.proto's dependencies, annotations.proto, library.proto and content.proto from
// their serialised FileDescriptorProtos in a registry of its own; options are unmarshalled with that registry's
// (dynamic) extension types, so (google.api.http) values are dynamicpb messages, as with a descriptor set loaded at run time.
func privateSchema() (*c20Schema, error) {
	c20Once.Do(func() {
		files := &protoregistry.Files{}
		var add func(fd protoreflect.FileDescriptor) error
		var pending []*descriptorpb.FileDescriptorProto
		seen := map[string]bool{}
		add = func(fd protoreflect.FileDescriptor) error {
			if seen[fd.Path()] {
				return nil
			}
			seen[fd.Path()] = true
			imps := fd.Imports()
			for i := 0; i < imps.Len(); i++ {
				if err := add(imps.Get(i).FileDescriptor); err != nil {
					return err
				}
			}
			pending = append(pending, protodesc.ToFileDescriptorProto(fd))
			return nil
		}
		for _, p := range []string{"vanguard/test/v1/library.proto", "vanguard/test/v1/content.proto"} {
			fd, err := protoregistry.GlobalFiles.FindFileByPath(p)
			if err != nil {
				c20Err = err
				return
			}
			if err := add(fd); err != nil {
				c20Err = err
				return
			}
		}
		// first pass: register everything (options still carry generated extension values)
		for _, fdp := range pending {
			f, err := protodesc.NewFile(fdp, files)
			if err != nil {
				c20Err = err
				return
			}
			if err := files.RegisterFile(f); err != nil {
				c20Err = err
				return
			}
		}
		// second pass: re-serialise each file and unmarshal it with the private (dynamic) extension types, then rebuild
		types := dynamicpb.NewTypes(files)
		files2 := &protoregistry.Files{}
		for _, fdp := range pending {
			raw, err := proto.Marshal(fdp)
			if err != nil {
				c20Err = err
				return
			}
			dyn := &descriptorpb.FileDescriptorProto{}
			if err := (proto.UnmarshalOptions{Resolver: types}).Unmarshal(raw, dyn); err != nil {
				c20Err = err
				return
			}
			f, err := protodesc.NewFile(dyn, files2)
			if err != nil {
				c20Err = err
				return
			}
			if err := files2.RegisterFile(f); err != nil {
				c20Err = err
				return
			}
		}
		get := func(name string) protoreflect.ServiceDescriptor {
			d, err := files2.FindDescriptorByName(protoreflect.FullName(name))
			if err != nil {
				c20Err = err
				return nil
			}
			return d.(protoreflect.ServiceDescriptor)
		}
		c20Private = &c20Schema{lib: get("vanguard.test.v1.LibraryService"), content: get("vanguard.test.v1.ContentService"), types: dynamicpb.NewTypes(files2)}
	})
	return c20Private, c20Err
}

type nothingResolver struct{}

// nothingResolver knows none of the schema's own types (it still knows google.* types such as error details).
func (nothingResolver) FindMessageByName(n protoreflect.FullName) (protoreflect.MessageType, error) {
	if strings.HasPrefix(string(n), "google.") {
		return protoregistry.GlobalTypes.FindMessageByName(n)
	}
	return nil, protoregistry.NotFound
}
func (nothingResolver) FindMessageByURL(u string) (protoreflect.MessageType, error) {
	if strings.Contains(u, "/google.") {
		return protoregistry.GlobalTypes.FindMessageByURL(u)
	}
	return nil, protoregistry.NotFound
}
func (nothingResolver) FindExtensionByName(protoreflect.FullName) (protoreflect.ExtensionType, error) {
	return nil, protoregistry.NotFound
}
func (nothingResolver) FindExtensionByNumber(protoreflect.FullName, protoreflect.FieldNumber) (protoreflect.ExtensionType, error) {
	return nil, protoregistry.NotFound
}

// someResolver knows every other message type.
type someResolver struct{ inner vanguard.TypeResolver }

func (s someResolver) FindMessageByName(n protoreflect.FullName) (protoreflect.MessageType, error) {
	if strings.HasPrefix(string(n), "google.") {
		return protoregistry.GlobalTypes.FindMessageByName(n)
	}
	if len(n)%2 == 0 {
		return nil, protoregistry.NotFound
	}
	return s.inner.FindMessageByName(n)
}
func (s someResolver) FindMessageByURL(u string) (protoreflect.MessageType, error) {
	if strings.Contains(u, "/google.") {
		return protoregistry.GlobalTypes.FindMessageByURL(u)
	}
	if len(u)%2 == 0 {
		return nil, protoregistry.NotFound
	}
	return s.inner.FindMessageByURL(u)
}
func (s someResolver) FindExtensionByName(n protoreflect.FullName) (protoreflect.ExtensionType, error) {
	return s.inner.FindExtensionByName(n)
}
func (s someResolver) FindExtensionByNumber(m protoreflect.FullName, f protoreflect.FieldNumber) (protoreflect.ExtensionType, error) {
	return s.inner.FindExtensionByNumber(m, f)
}

// orphanService reports no parent file.
type orphanService struct{ protoreflect.ServiceDescriptor }

func (o orphanService) ParentFile() protoreflect.FileDescriptor { return nil }

var c20Variants = []string{"protodesc-dynamic-options", "resolver-knows-nothing", "resolver-knows-some", "no-parent-file", "no-json-names"}

var (
	c20TcMu sync.Mutex
	c20Tc   = map[string]*vanguard.Transcoder{}
)

func c20Transcoder(variant string, cfg *SvcConfig) (*vanguard.Transcoder, error) {
	key := variant + "|" + cfg.Key()
	c20TcMu.Lock()
	defer c20TcMu.Unlock()
	if t := c20Tc[key]; t != nil {
		return t, nil
	}
	opts := svcOptions(cfg)
	var svcs []*vanguard.Service
	switch variant {
	case "generated":
		svcs = []*vanguard.Service{vanguard.NewService("vanguard.test.v1.LibraryService", dispatcher, opts...), vanguard.NewService("/vanguard.test.v1.ContentService/", dispatcher, opts...)}
	default:
		ps, err := privateSchema()
		if err != nil {
			return nil, err
		}
		lib, content := ps.lib, ps.content
		switch variant {
		case "resolver-knows-nothing":
			opts = append(opts, vanguard.WithTypeResolver(nothingResolver{}))
		case "resolver-knows-some":
			opts = append(opts, vanguard.WithTypeResolver(someResolver{inner: ps.types}))
		case "no-parent-file":
			lib, content = orphanService{lib}, orphanService{content}
		case "no-json-names":
			// the same files as written by a tool that does not fill in json_name (hand-built descriptors, some
			// reflection servers): JSONName() is then derived and has the identical value
			var err error
			if lib, err = withoutJSONNames("vanguard/test/v1/library.proto", "LibraryService"); err != nil {
				return nil, err
			}
			if content, err = withoutJSONNames("vanguard/test/v1/content.proto", "ContentService"); err != nil {
				return nil, err
			}
		}
		svcs = []*vanguard.Service{vanguard.NewServiceWithSchema(lib, dispatcher, opts...), vanguard.NewServiceWithSchema(content, dispatcher, opts...)}
	}
	var topts []vanguard.TranscoderOption
	if cfg.KnowZZ {
		topts = append(topts, vanguard.WithCompression("zz", newZZCompressor, newZZDecompressor))
	}
	t, err := vanguard.NewTranscoder(svcs, topts...)
	if err != nil {
		return nil, err
	}
	c20Tc[key] = t
	return t, nil
}

type c20View struct {
	Invocations int
	Proto       string
	Method      string
	Path        string
	Query       string
	Codec       string
	Comp        string
	NMsgs       int
	Bad         []string
	Flags       []byte
	Kind        string
	Code        int
	Status      int
	NResp       int
	Malformed   []string
	CT          string
}

func viewOf(e *Exec) c20View {
	bo, o := e.Backend.Obs, e.Out
	return c20View{Invocations: bo.Invocations, Proto: bo.Proto, Method: bo.Method, Path: bo.Path, Query: "", Codec: bo.Codec, Comp: bo.Comp, NMsgs: len(bo.Msgs), Bad: bo.Bad, Flags: bo.FrameFlags,
		Kind: o.Kind, Code: o.Code, Status: o.Status, NResp: len(o.Msgs), Malformed: o.Malformed, CT: o.CT}
}

// ---- same content under two file paths ---------------------------------------------

// revisedContent rebuilds content.proto with one more message (Sticker) under the given file path. Under the original path
// the file shares path and package with the generated file linked into the binary; under any other path it does not. The
// content is the same, so the behaviour must be.
func revisedContent(path string) (protoreflect.ServiceDescriptor, protoreflect.MessageType, error) {
	gfd, err := protoregistry.GlobalFiles.FindFileByPath("vanguard/test/v1/content.proto")
	if err != nil {
		return nil, nil, err
	}
	fdp := protodesc.ToFileDescriptorProto(gfd)
	fdp.Name = proto.String(path)
	fdp.MessageType = append(fdp.MessageType, &descriptorpb.DescriptorProto{Name: proto.String("Sticker"), Field: []*descriptorpb.FieldDescriptorProto{{
		Name: proto.String("label"), JsonName: proto.String("label"), Number: proto.Int32(1),
		Label: descriptorpb.FieldDescriptorProto_LABEL_OPTIONAL.Enum(), Type: descriptorpb.FieldDescriptorProto_TYPE_STRING.Enum()}}})
	fd, err := protodesc.NewFile(fdp, protoregistry.GlobalFiles)
	if err != nil {
		return nil, nil, err
	}
	return fd.Services().ByName("ContentService"), dynamicpb.NewMessageType(fd.Messages().ByName("Sticker")), nil
}

func withoutJSONNames(path, svc string) (protoreflect.ServiceDescriptor, error) {
	gfd, err := protoregistry.GlobalFiles.FindFileByPath(path)
	if err != nil {
		return nil, err
	}
	fdp := protodesc.ToFileDescriptorProto(gfd)
	var strip func(ms []*descriptorpb.DescriptorProto)
	strip = func(ms []*descriptorpb.DescriptorProto) {
		for _, m := range ms {
			for _, f := range m.Field {
				f.JsonName = nil
			}
			strip(m.NestedType)
		}
	}
	strip(fdp.MessageType)
	fd, err := protodesc.NewFile(fdp, protoregistry.GlobalFiles)
	if err != nil {
		return nil, err
	}
	return fd.Services().ByName(protoreflect.Name(svc)), nil
}

var (
	c20PathMu sync.Mutex
	c20PathTc = map[string]*vanguard.Transcoder{}
)

func c20PathTranscoder(path string, cfg *SvcConfig) (*vanguard.Transcoder, protoreflect.MessageType, error) {
	svc, sticker, err := revisedContent(path)
	if err != nil {
		return nil, nil, err
	}
	extraTypes.Store(string(sticker.Descriptor().FullName()), sticker)
	key := path + "|" + cfg.Key()
	c20PathMu.Lock()
	defer c20PathMu.Unlock()
	if t := c20PathTc[key]; t != nil {
		return t, sticker, nil
	}
	t, err := vanguard.NewTranscoder([]*vanguard.Service{vanguard.NewServiceWithSchema(svc, dispatcher, svcOptions(cfg)...)})
	if err != nil {
		return nil, nil, err
	}
	c20PathTc[key] = t
	return t, sticker, nil
}

func c20SamePathLeg(c *Ctx, i int, r *rand.Rand) {
	cfg := genConfig(r)
	cfg.KnowZZ = false
	cfg.Comps = nil
	if len(cfg.Protocols) == 1 && cfg.Protocols[0] == "rest" {
		cfg.Protocols = []string{"connect"}
	}
	cfg.Codecs = []string{pick(r, []string{"proto", "json"})}
	ta, sticker, err := c20PathTranscoder("vanguard/test/v1/content.proto", cfg)
	if err != nil {
		c.Violate(i, "schema-variant-refused/same-path", err.Error())
		return
	}
	tb, _, err := c20PathTranscoder("revised/vanguard/test/v1/content.proto", cfg)
	if err != nil {
		c.Violate(i, "schema-variant-refused/other-path", err.Error())
		return
	}
	var m *MethodInfo
	for _, x := range schemaMethods("content") {
		if x.Name == "Index" {
			m = x
		}
	}
	if m == nil {
		return
	}
	// the response: an HttpBody whose extensions carry a message that exists only in the revised file
	st := sticker.New()
	st.Set(st.Descriptor().Fields().ByName("label"), protoreflect.ValueOfString(pick(r, stringPool)))
	sb, _ := proto.Marshal(st.Interface())
	resp := newMsg(m.Out())
	rm := resp.ProtoReflect()
	fs := rm.Descriptor().Fields()
	rm.Set(fs.ByName("content_type"), protoreflect.ValueOfString("text/html"))
	rm.Set(fs.ByName("data"), protoreflect.ValueOfBytes([]byte("<html/>")))
	rm.Mutable(fs.ByName("extensions")).List().Append(protoreflect.ValueOfMessage((&anypb.Any{TypeUrl: "type.googleapis.com/vanguard.test.v1.Sticker", Value: sb}).ProtoReflect()))
	creq := &ClientReq{Form: pick(r, []ClientForm{FConnectUnary, FGRPC, FGRPCWeb}), M: m, Codec: pick(r, []string{"json", "proto"}), HTTP2: true, FrameComp: []bool{false},
		Msgs: []protoMsg{genMessage(r, m.In(), genOpts{noMaps: true, density: 2, simpleStr: true})}}
	script := &BackendScript{Msgs: []protoMsg{resp}, FrameComp: []bool{false}}
	built, err := creq.Build(r)
	if err != nil {
		return
	}
	creq.UseRawBody, creq.RawBody = true, built.Raw
	scfg := *cfg
	scfg.Schema = "content"
	run := func(t *vanguard.Transcoder) (*Exec, error) {
		cr, sc := *creq, *script
		return runRPC(&scfg, &cr, &sc, r, &execOpts{Transcoder: t})
	}
	ea, err := run(ta)
	if err != nil {
		return
	}
	eb, err := run(tb)
	if err != nil {
		return
	}
	c.Eval()
	c.Eval()
	c.Count("pairs-compared")
	c.Count("variant:same-content-two-paths")
	if creq.Codec != ea.Backend.Obs.Codec {
		c.Count("same-path-pairs-re-encoded")
		c.Nontrivial(fmt.Sprintf("paths|%s|%s>%s|%v", creq.Form, creq.Codec, ea.Backend.Obs.Codec, cfg.Protocols))
	}
	detail := func() string {
		return fmt.Sprintf("the same revised content.proto (one more message, carried in HttpBody.extensions) registered under two file paths\n--- under the generated file's own path:\n%s--- under another path:\n%s", ea.Describe(), eb.Describe())
	}
	if (ea.Panic != nil) != (eb.Panic != nil) {
		c.Violate(i, "panic-only-with-one-schema-source/same-content-two-paths", detail())
		return
	}
	va, vb := viewOf(ea), viewOf(eb)
	if !reflect.DeepEqual(va, vb) {
		c.Violate(i, "behaviour-differs/same-content-two-paths/"+c20Field(va, vb), fmt.Sprintf("same path: %+v\nother path: %+v\n%s", va, vb, detail()))
		return
	}
	if !msgsEqual(ea.Out.Msgs, eb.Out.Msgs) {
		c.Violate(i, "client-messages-differ/same-content-two-paths", detail())
	}
}

func runC20(c *Ctx, i int, r *rand.Rand) {
	if i%8 == 7 {
		c20GRPCLeg(c, i, r)
		return
	}
	if i%16 == 3 {
		c20SamePathLeg(c, i, r)
		return
	}
	if i%16 == 11 {
		c20ExtensionLeg(c, i, r)
		return
	}
	variant := c20Variants[i%len(c20Variants)]
	s := genScenario(r, ScenOpts{Methods: schemaMethods("library+content"), Schema: "library+content", Variety: chance(r, 30), Headers: chance(r, 20)}, fmt.Sprintf("mk%d", i))
	// maps make binary request bytes differ between runs; the comparison is on decoded views
	built, err := s.Req.Build(r)
	if err != nil {
		return
	}
	s.Req.UseRawBody, s.Req.RawBody = true, built.Raw
	tg, err := c20Transcoder("generated", s.Cfg)
	if err != nil {
		c.Violate(i, "generated-schema-refused", err.Error())
		return
	}
	td, err := c20Transcoder(variant, s.Cfg)
	if err != nil {
		c.Violate(i, "schema-variant-refused/"+variant, fmt.Sprintf("NewTranscoder failed for a schema that is accepted when registered from generated code: %v", err))
		return
	}
	run := func(t *vanguard.Transcoder) (*Exec, error) {
		creq := *s.Req
		script := *s.Script
		return runRPC(s.Cfg, &creq, &script, r, &execOpts{Transcoder: t})
	}
	eg, err := run(tg)
	if err != nil {
		return
	}
	ed, err := run(td)
	if err != nil {
		return
	}
	c.Eval()
	c.Eval()
	c.Count("pairs-compared")
	c.Count("variant:" + variant)
	if i < 4 {
		c.Sample(map[string]any{"case": i, "variant": variant, "cell": s.Cell(), "describe": ed.Describe()})
	}
	restOrJSON := s.Req.Form == FREST || s.Target == "rest" || s.Req.Codec == "json" || eg.Backend.Obs.Codec == "json"
	if restOrJSON {
		c.Count("rest-or-json")
		c.Nontrivial(fmt.Sprintf("%s|%s|%s>%s|%s", variant, s.Cell(), s.Req.Codec, eg.Backend.Obs.Codec, scriptShape(s.Script)))
	}
	detail := func() string {
		return fmt.Sprintf("variant=%s\n--- generated schema:\n%s--- %s:\n%s", variant, eg.Describe(), variant, ed.Describe())
	}
	if (eg.Panic != nil) != (ed.Panic != nil) {
		c.Violate(i, "panic-only-with-one-schema-source/"+variant, detail())
		return
	}
	if eg.Panic != nil {
		return
	}
	vg, vd := viewOf(eg), viewOf(ed)
	if !reflect.DeepEqual(vg, vd) {
		c.Violate(i, "behaviour-differs/"+variant+"/"+c20Field(vg, vd), fmt.Sprintf("generated: %+v\n%s: %+v\n%s", vg, variant, vd, detail()))
		return
	}
	if !msgsEqual(eg.Backend.Obs.Msgs, ed.Backend.Obs.Msgs) {
		c.Violate(i, "backend-messages-differ/"+variant, detail())
		return
	}
	if !msgsEqual(eg.Out.Msgs, ed.Out.Msgs) {
		c.Violate(i, "client-messages-differ/"+variant, detail())
	}
}

func c20Field(a, b c20View) string {
	va, vb := reflect.ValueOf(a), reflect.ValueOf(b)
	for k := 0; k < va.NumField(); k++ {
		if !reflect.DeepEqual(va.Field(k).Interface(), vb.Field(k).Interface()) {
			return va.Type().Field(k).Name
		}
	}
	return "?"
}

// ---- gRPC leg ----------------------------------------------------------------

type libraryServer struct {
	testv1.UnimplementedLibraryServiceServer
}

func (libraryServer) GetBook(_ context.Context, req *testv1.GetBookRequest) (*testv1.Book, error) {
	if req.GetName() == "shelves/0/books/missing" {
		return nil, status.Error(codes.NotFound, "no such book: "+req.GetName())
	}
	return &testv1.Book{Name: req.GetName(), Title: "title of " + req.GetName(), Labels: map[string]string{"k": "v"}}, nil
}

func (libraryServer) CreateBook(_ context.Context, req *testv1.CreateBookRequest) (*testv1.Book, error) {
	b := proto.Clone(req.GetBook()).(*testv1.Book)
	if b == nil {
		b = &testv1.Book{}
	}
	b.Parent = req.GetParent()
	b.Name = req.GetParent() + "/books/" + req.GetBookId()
	return b, nil
}

var (
	grpcLegOnce sync.Once
	grpcLegA    *vanguard.Transcoder
	grpcLegB    *vanguard.Transcoder
	grpcLegErr  error
)

func grpcLeg() (*vanguard.Transcoder, *vanguard.Transcoder, error) {
	grpcLegOnce.Do(func() {
		srv := grpc.NewServer()
		testv1.RegisterLibraryServiceServer(srv, libraryServer{})
		grpcLegA, grpcLegErr = vanguardgrpc.NewTranscoder(srv)
		if grpcLegErr != nil {
			return
		}
		grpcLegB, grpcLegErr = vanguard.NewTranscoder(
			[]*vanguard.Service{vanguard.NewService("vanguard.test.v1.LibraryService", srv)},
			vanguard.WithDefaultServiceOptions(vanguard.WithTargetProtocols(vanguard.ProtocolGRPC), vanguard.WithTargetCodecs(vanguard.CodecProto)))
	})
	return grpcLegA, grpcLegB, grpcLegErr
}

func c20GRPCLeg(c *Ctx, i int, r *rand.Rand) {
	ta, tb, err := grpcLeg()
	if err != nil {
		c.Violate(i, "grpc-leg-setup", err.Error())
		return
	}
	_, ms := globalService("vanguard.test.v1.LibraryService")
	var m *MethodInfo
	name := pick(r, []string{"GetBook", "GetBook", "CreateBook", "ListBooks", "DeleteBook"})
	for _, x := range ms {
		if x.Name == name {
			m = x
		}
	}
	form := pick(r, formsFor(m))
	creq := &ClientReq{Form: form, M: m, Codec: pick(r, []string{"proto", "json"}), HTTP2: true, GetViaQuery: true, Comp: pick(r, []string{"", "gzip"}), FrameComp: []bool{true}, Accept: pick(r, [][]string{nil, {"gzip"}})}
	var msg proto.Message
	switch name {
	case "GetBook":
		msg = &testv1.GetBookRequest{Name: pick(r, []string{"shelves/1/books/2", "shelves/0/books/missing", "shelves/a%20b/books/é", "shelves/x/books/100%"})}
	case "CreateBook":
		msg = &testv1.CreateBookRequest{Parent: "shelves/" + pick(r, []string{"1", "a b", "é"}), BookId: pick(r, []string{"", "b1"}), Book: &testv1.Book{Title: pick(r, stringPool), Author: "a", Labels: map[string]string{"x": "y"}}, RequestId: pick(r, []string{"", "r-1"})}
	case "ListBooks":
		msg = &testv1.ListBooksRequest{Parent: "shelves/1", PageSize: 10}
	default:
		msg = &testv1.DeleteBookRequest{Name: "shelves/1/books/2"}
	}
	if form == FREST {
		creq.Codec = "json"
		b := m.Rules[0]
		rr, err := renderREST(b, msg, r, renderChoices{jsonNames: chance(r, 50)})
		if err != nil {
			return
		}
		creq.Binding, creq.Rest = b, rr
	}
	creq.Msgs = []proto.Message{msg}
	built, err := creq.Build(r)
	if err != nil {
		return
	}
	creq.UseRawBody, creq.RawBody = true, built.Raw
	run := func(t *vanguard.Transcoder) (*Outcome, *Recorder, any) {
		b, err := creq.Build(r)
		if err != nil {
			return nil, nil, nil
		}
		rec := newRecorder()
		var p any
		func() {
			defer func() { p = recover() }()
			t.ServeHTTP(rec, b.Req.WithContext(context.Background()))
		}()
		rec.Finish()
		return ParseResponse(creq, rec), rec, p
	}
	oa, ra, pa := run(ta)
	ob, rb, pb := run(tb)
	if oa == nil || ob == nil {
		return
	}
	c.Eval()
	c.Eval()
	c.Count("grpc-leg-compared")
	c.Nontrivial(fmt.Sprintf("grpc-leg|%s|%s|%s|%s", form, name, creq.Codec, creq.Comp))
	detail := func() string {
		return fmt.Sprintf("request: %s %s (%s, codec %s)\nvanguardgrpc.NewTranscoder: status=%d headers=%s body=%q -> %s\nNewService by name:           status=%d headers=%s body=%q -> %s",
			built.Req.Method, built.Req.RequestURI, form, creq.Codec, ra.Code, hdrString(ra.HeadersSent()), clip(ra.Body.Bytes(), 200), oa.Summary(), rb.Code, hdrString(rb.HeadersSent()), clip(rb.Body.Bytes(), 200), ob.Summary())
	}
	if pa != nil || pb != nil {
		c.Violate(i, "grpc-leg-panic", fmt.Sprintf("%v / %v\n%s", pa, pb, detail()))
		return
	}
	if oa.Kind != ob.Kind || oa.Code != ob.Code || oa.Status != ob.Status || len(oa.Msgs) != len(ob.Msgs) || !reflect.DeepEqual(oa.Malformed, ob.Malformed) || !msgsEqual(oa.Msgs, ob.Msgs) {
		c.Violate(i, "wrapped-grpc-server-behaves-differently/"+form.String(), detail())
		return
	}
	// sanity: the implemented methods work at all through the wrapped server
	if name == "GetBook" && !oa.OK() && msg.(*testv1.GetBookRequest).GetName() != "shelves/0/books/missing" {
		c.Violate(i, "grpc-leg-getbook-failed/"+form.String(), detail())
	}
	for _, mf := range oa.Malformed {
		c.Violate(i, "grpc-leg-invalid-response/"+classify(mf), detail())
	}
}

var _ http.Handler = dispatcher
