package main

import (
	"fmt"
	"math/rand/v2"
	"net/url"
	"strings"

	"connectrpc.com/vanguard"
	"google.golang.org/protobuf/proto"
)

func init() {
	register(&Property{
		ID:    "C19",
		Level: "exploration",
		Rule: "strata by i mod 4: (0) accept side, refusal: Connect GET (version header or connect=v1) on methods of every idempotency level -> 405 + Allow unless NO_SIDE_EFFECTS, never dispatched; " +
			"(1) accept side, equivalence: GET on side-effect-free methods with every query encoding (base64 absent/0/1 for every codec and for compressed messages alike, padded or unpadded URL-safe base64, compression on/off, proto/json) -> the backend-decoded message equals the " +
			"message a POST with the same content delivers; (2) issue side: every client form x idempotency level x stable/non-stable target codec (a JSON codec without MarshalAppendStable) x compression -> a backend GET implies " +
			"the client's own request was a GET, the method is side-effect-free, the target codec is stable and the URL fits; a backend POST carries the message in its body; (3) self-calibrated URL-length boundary: " +
			"the URL length U observed under a huge limit, then limits U-1 (must be POST), U and U+1 (must be GET). non-trivial = the client used GET or the backend saw GET; distinct by (stratum, form, method, codecs, encoding choices)",
		Assume: []string{"requests forwarded without any conversion (pass-through) are not 'issued' by the transcoder; the URL-length clause applies to converted requests"},
		N:      func(t string) int { return tierN(t, 12000, 240000) },
		Run:    runC19,
		MinimaFor: func(t string) map[string]int {
			return map[string]int{"refusals-checked": tierN(t, 1500, 30000), "get-equivalence-checked": tierN(t, 2000, 40000), "backend-saw-get": tierN(t, 1500, 30000), "boundary-triples": tierN(t, 300, 6000)}
		},
	})
}

// unstableJSON is a JSON codec that deliberately does not implement vanguard.StableCodec.
type unstableJSON struct{ inner *vanguard.JSONCodec }

func (u unstableJSON) Name() string { return "jsonu" }
func (u unstableJSON) MarshalAppend(b []byte, m proto.Message) ([]byte, error) {
	return u.inner.MarshalAppend(b, m)
}
func (u unstableJSON) Unmarshal(d []byte, m proto.Message) error { return u.inner.Unmarshal(d, m) }

func buildC19Transcoder(codecs []string, comps []string, maxURL uint32, protocols []string) (*vanguard.Transcoder, error) {
	sd, _ := kitchen()
	var ps []vanguard.Protocol
	for _, p := range protocols {
		ps = append(ps, protoByName[p])
	}
	opts := []vanguard.ServiceOption{vanguard.WithTargetProtocols(ps...), vanguard.WithTargetCodecs(codecs...), vanguard.WithTargetCompression(comps...)}
	if maxURL > 0 {
		opts = append(opts, vanguard.WithMaxGetURLBytes(maxURL))
	}
	svc := vanguard.NewServiceWithSchema(sd, dispatcher, opts...)
	return vanguard.NewTranscoder([]*vanguard.Service{svc}, vanguard.WithCodec(func(res vanguard.TypeResolver) vanguard.Codec {
		return unstableJSON{inner: vanguard.NewJSONCodec(res)}
	}))
}

var c19Idem = map[string]string{"Unary": "unknown", "UnaryIdem": "idempotent", "UnaryNSE": "no_side_effects", "GetParams": "no_side_effects", "PostParams": "unknown", "Multi": "no_side_effects", "GetIdem": "idempotent", "NestedVar": "unknown"}

func runC19(c *Ctx, i int, r *rand.Rand) {
	kitchen()
	switch i % 4 {
	case 0:
		c19Refusal(c, i, r)
	case 1:
		c19Equivalence(c, i, r)
	case 2:
		c19Issue(c, i, r)
	case 3:
		c19Boundary(c, i, r)
	}
}

func c19Refusal(c *Ctx, i int, r *rand.Rand) {
	m := kitchenInfo[pick(r, []string{"Unary", "UnaryIdem", "PostParams", "UnaryNSE", "GetParams", "GetIdem"})]
	cfg := genConfig(r)
	creq := &ClientReq{Form: FConnectGet, M: m, Codec: pick(r, []string{"proto", "json"}), GetViaQuery: chance(r, 50), GetPadded: chance(r, 50), GetNoBase64: chance(r, 50),
		Msgs: []proto.Message{genMessage(r, m.In(), genOpts{density: 3, noMaps: true})}, HTTP2: chance(r, 50), Comp: pick(r, []string{"", "gzip"})}
	if resolveTarget(cfg, "connect") == "rest" {
		cfg.Protocols = []string{pick(r, []string{"connect", "grpc", "grpcweb"})} // REST targets add URL-encodability constraints of their own
	}
	script := &BackendScript{Msgs: []proto.Message{genMessage(r, m.Out(), genOpts{density: 3})}}
	e, err := runRPC(cfg, creq, script, r, nil)
	if err != nil {
		return
	}
	c.Eval()
	bo, o := e.Backend.Obs, e.Out
	detail := func() string { return fmt.Sprintf("method idempotency=%s\n%s", c19Idem[m.Name], e.Describe()) }
	if e.Panic != nil {
		c.Violate(i, "transcoder-panic/"+panicSite(e.Stack), detail())
		return
	}
	c.Nontrivial(fmt.Sprintf("0|%s|%s|%v|%v", m.Name, creq.Codec, creq.GetViaQuery, cfg.Protocols))
	if m.Idem == idemNSE {
		c.Count("get-allowed")
		if !o.OK() {
			c.Violate(i, "get-refused-for-side-effect-free-method/"+m.Name, detail())
		}
		return
	}
	c.Count("refusals-checked")
	if bo.Invocations > 0 {
		c.Violate(i, "get-dispatched-for-method-with-side-effects/"+c19Idem[m.Name], detail())
		return
	}
	if o.Status != 405 {
		c.Violate(i, fmt.Sprintf("get-refusal-status-%d/%s", o.Status, c19Idem[m.Name]), detail())
		return
	}
	allow := o.Headers.Get("Allow")
	if allow == "" || !strings.Contains(allow, "POST") {
		c.Violate(i, "get-refusal-without-usable-allow", fmt.Sprintf("Allow=%q\n%s", allow, detail()))
	}
}

func c19Equivalence(c *Ctx, i int, r *rand.Rand) {
	m := kitchenInfo[pick(r, []string{"UnaryNSE", "GetParams", "Multi"})]
	cfg := genConfig(r)
	target := resolveTarget(cfg, "connect")
	var msg proto.Message
	if target == "rest" {
		if len(m.Rules) == 0 {
			return
		}
		msg, _, _ = genForBinding(r, m.Rules[0], "")
		if msg == nil {
			return
		}
	} else {
		msg = genMessage(r, m.In(), genOpts{density: pick(r, []int{0, 3, 10, 30}), maxStr: pick(r, []int{0, 0, 300, 3000})})
	}
	codec := pick(r, []string{"proto", "json"})
	if codec == "json" && !jsonCarriable(msg) {
		return
	}
	comp := pick(r, []string{"", "gzip"})
	script := func() *BackendScript { return &BackendScript{Msgs: []proto.Message{genMessage(r, m.Out(), genOpts{density: 3})}} }
	get := &ClientReq{Form: FConnectGet, M: m, Codec: codec, Comp: comp, GetViaQuery: chance(r, 50), GetPadded: chance(r, 50), GetNoBase64: chance(r, 50), Msgs: []proto.Message{msg}, HTTP2: chance(r, 50)}
	post := &ClientReq{Form: FConnectUnary, M: m, Codec: codec, Comp: comp, Msgs: []proto.Message{msg}, HTTP2: get.HTTP2}
	eg, err := runRPC(cfg, get, script(), r, nil)
	if err != nil {
		return
	}
	ep, err := runRPC(cfg, post, script(), r, nil)
	if err != nil {
		return
	}
	c.Eval()
	c.Eval()
	if i < 5 {
		c.Sample(map[string]any{"case": i, "stratum": "get-vs-post", "get": eg.Describe()})
	}
	detail := func() string { return fmt.Sprintf("GET run:\n%s\nPOST run with the same content:\n%s", eg.Describe(), ep.Describe()) }
	if eg.Panic != nil || ep.Panic != nil {
		c.Violate(i, "transcoder-panic", detail())
		return
	}
	c.Count("get-equivalence-checked")
	c.Nontrivial(fmt.Sprintf("1|%s|%s|%s|%v|%v|%v|%s", m.Name, codec, comp, get.GetViaQuery, get.GetPadded, get.GetNoBase64, target))
	if eg.Out.OK() != ep.Out.OK() {
		c.Violate(i, "get-and-post-outcomes-differ", detail())
		return
	}
	if !eg.Out.OK() {
		c.Count("both-failed")
		return
	}
	var bf []string
	if eg.Backend.Obs.Binding != nil {
		bf = append(bf, eg.Backend.Obs.Binding.Body)
	}
	if d, k := seqDiff(ep.Backend.Obs.Msgs, eg.Backend.Obs.Msgs, false, bf...); d != "" && k != "value-null" {
		c.Violate(i, "get-decodes-differently-from-post", fmt.Sprintf("%s\n%s", d, detail()))
		return
	}
	if d, k := seqDiff([]proto.Message{msg}, eg.Backend.Obs.Msgs, false, bf...); d != "" && k != "value-null" {
		c.Violate(i, "get-message-altered", fmt.Sprintf("%s\n%s", d, detail()))
	}
}

func c19Issue(c *Ctx, i int, r *rand.Rand) {
	// (GetIdem and NestedVar have REST GET bindings without being side-effect-free: a REST client's GET is accepted for
	// them, but it must reach a Connect backend as a POST)
	m := kitchenInfo[pick(r, []string{"Unary", "UnaryIdem", "UnaryNSE", "GetParams", "PostParams", "Multi", "GetIdem", "GetIdem", "NestedVar"})]
	form := pick(r, formsFor(m))
	codecs := pick(r, [][]string{{"proto"}, {"json"}, {"jsonu"}, {"jsonu", "proto"}, {"proto", "json"}})
	comps := pick(r, [][]string{{}, {"gzip"}})
	t, err := buildC19Transcoder(codecs, comps, 0, []string{"connect"})
	if err != nil {
		c.Violate(i, "harness/config", err.Error())
		return
	}
	creq := &ClientReq{Form: form, M: m, Codec: pick(r, []string{"proto", "json", "jsonu"}), Comp: pick(r, []string{"", "gzip"}), GetViaQuery: chance(r, 50), HTTP2: true, FrameComp: []bool{true}}
	if form == FREST {
		creq.Codec = "json"
		b := pick(r, m.Rules)
		msg, rr, ch := genForBinding(r, b, "")
		if msg == nil {
			return
		}
		creq.Binding, creq.Rest, creq.Render, creq.Msgs = b, rr, ch, []proto.Message{msg}
	} else {
		creq.Msgs = []proto.Message{genMessage(r, m.In(), genOpts{density: pick(r, []int{0, 3, 10}), noMaps: true})}
		if creq.Codec != "proto" && !jsonCarriable(creq.Msgs[0]) {
			return
		}
	}
	script := &BackendScript{Msgs: []proto.Message{genMessage(r, m.Out(), genOpts{density: 3})}}
	e, err := runRPC(&SvcConfig{Protocols: []string{"connect"}, Codecs: codecs, Comps: comps}, creq, script, r, &execOpts{Transcoder: t})
	if err != nil {
		return
	}
	c.Eval()
	bo := e.Backend.Obs
	detail := func() string { return fmt.Sprintf("method idempotency=%s target codecs=%v\n%s", c19Idem[m.Name], codecs, e.Describe()) }
	if e.Panic != nil {
		c.Violate(i, "transcoder-panic/"+panicSite(e.Stack), detail())
		return
	}
	if bo.Invocations == 0 {
		c.Count("issue:not-dispatched")
		return
	}
	clientGet := e.Built.Req.Method == "GET"
	c.Count("issue-checked")
	if clientGet || bo.Method == "GET" {
		c.Nontrivial(fmt.Sprintf("2|%s|%s|%s>%s|%v", form, m.Name, creq.Codec, bo.Codec, codecs))
	}
	switch bo.Method {
	case "GET":
		c.Count("backend-saw-get")
		if !clientGet {
			c.Violate(i, "get-issued-for-non-get-client-request/"+form.String(), detail())
		}
		if m.Idem != idemNSE {
			c.Violate(i, "get-issued-for-method-with-side-effects/"+c19Idem[m.Name], detail())
		}
		if bo.Codec == "jsonu" && !passThrough(&Scenario{Req: creq}, bo) {
			c.Violate(i, "get-issued-with-non-stable-codec", detail())
		}
		if n := len(bo.Path) + 1 + len(bo.RawQuery); n > 8*1024 && !passThrough(&Scenario{Req: creq}, bo) {
			c.Violate(i, "get-issued-beyond-default-url-limit", fmt.Sprintf("URL length %d\n%s", n, detail()))
		}
		for _, b := range bo.Bad {
			c.Violate(i, "issued-get-invalid/"+classify(b), fmt.Sprintf("%s\n%s", b, detail()))
		}
	case "POST":
		c.Count("backend-saw-post")
		if bo.RawQuery != "" {
			c.Violate(i, "post-with-query-string", detail())
		}
	default:
		c.Violate(i, "backend-saw-method-"+bo.Method, detail())
	}
	if e.Out.OK() {
		var bf []string
		if creq.Binding != nil {
			bf = append(bf, creq.Binding.Body)
		}
		if d, k := seqDiff(creq.Msgs, bo.Msgs, false, bf...); d != "" && k != "value-null" {
			c.Violate(i, "message-altered/"+bo.Method, fmt.Sprintf("%s\n%s", d, detail()))
		}
	}
}

func c19Boundary(c *Ctx, i int, r *rand.Rand) {
	m := kitchenInfo[pick(r, []string{"UnaryNSE", "GetParams", "Multi"})]
	// force a conversion so that the transcoder itself issues the GET: client and target codecs differ
	clientCodec, targetCodec := "json", "proto"
	if chance(r, 50) {
		clientCodec, targetCodec = "proto", "json"
	}
	comps := pick(r, [][]string{{}, {"gzip"}})
	msg := genMessage(r, m.In(), genOpts{density: pick(r, []int{0, 3, 10, 40}), noMaps: true, maxStr: pick(r, []int{0, 100, 2000})})
	if !jsonCarriable(msg) {
		return
	}
	run := func(max uint32) *Exec {
		t, err := buildC19Transcoder([]string{targetCodec}, comps, max, []string{"connect"})
		if err != nil {
			return nil
		}
		creq := &ClientReq{Form: FConnectGet, M: m, Codec: clientCodec, Comp: pick(r, []string{"", "gzip"}), GetViaQuery: true, Msgs: []proto.Message{msg}, HTTP2: true}
		creq.Comp = ""
		if len(comps) > 0 {
			creq.Comp = "gzip"
		}
		script := &BackendScript{Msgs: []proto.Message{genMessage(r, m.Out(), genOpts{density: 3})}}
		e, err := runRPC(&SvcConfig{Protocols: []string{"connect"}, Codecs: []string{targetCodec}, Comps: comps}, creq, script, r, &execOpts{Transcoder: t})
		if err != nil {
			return nil
		}
		return e
	}
	e0 := run(1 << 30)
	if e0 == nil || e0.Panic != nil || e0.Backend.Obs.Invocations == 0 {
		return
	}
	c.Eval()
	if e0.Backend.Obs.Method != "GET" {
		c.Violate(i, "no-get-under-huge-url-limit", e0.Describe())
		return
	}
	u, _ := url.Parse(e0.Backend.Obs.Path)
	_ = u
	U := uint32(len(e0.Backend.Obs.Path) + 1 + len(e0.Backend.Obs.RawQuery))
	c.Count("boundary-triples")
	c.Nontrivial(fmt.Sprintf("3|%s|%s|%d", m.Name, clientCodec, U))
	for _, tc := range []struct {
		max  uint32
		want string
	}{{U - 1, "POST"}, {U, "GET"}, {U + 1, "GET"}} {
		e := run(tc.max)
		if e == nil {
			continue
		}
		c.Eval()
		bo := e.Backend.Obs
		detail := func() string {
			return fmt.Sprintf("URL length observed under a huge limit: U=%d; limit now %d; expected %s\n%s", U, tc.max, tc.want, e.Describe())
		}
		if e.Panic != nil {
			c.Violate(i, "transcoder-panic", detail())
			continue
		}
		if bo.Invocations != 1 || !e.Out.OK() {
			c.Violate(i, "boundary-request-failed", detail())
			continue
		}
		if bo.Method != tc.want {
			c.Violate(i, fmt.Sprintf("url-limit-boundary/limit-U%+d-saw-%s", int(tc.max)-int(U), bo.Method), detail())
			continue
		}
		if bo.Method == "GET" {
			c.Count("backend-saw-get")
			if n := uint32(len(bo.Path) + 1 + len(bo.RawQuery)); n > tc.max {
				c.Violate(i, "issued-url-exceeds-limit", detail())
			}
		}
		if d, k := seqDiff([]proto.Message{msg}, bo.Msgs, false); d != "" && k != "value-null" {
			c.Violate(i, "message-altered-at-boundary/"+bo.Method, fmt.Sprintf("%s\n%s", d, detail()))
		}
	}
}
