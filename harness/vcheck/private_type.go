package main

import (
	"strings"
	"sync"

	"google.golang.org/protobuf/proto"
	"google.golang.org/protobuf/reflect/protodesc"
	"google.golang.org/protobuf/reflect/protoreflect"
	"google.golang.org/protobuf/reflect/protoregistry"
	"google.golang.org/protobuf/types/descriptorpb"
	"google.golang.org/protobuf/types/dynamicpb"
	"google.golang.org/protobuf/types/known/anypb"
)

// A message type that exists in no global registry: verif.v1.Private { string note = 1; }.
// It travels inside google.protobuf.Any (google.api.HttpBody.extensions), so converting such a message between proto and
// JSON needs a type resolver that knows it. Only the service it is configured on (WithTypeResolver) and the harness's own
// reference codecs do.
var (
	privOnce sync.Once
	privType protoreflect.MessageType
)

const privName = "verif.v1.Private"

func privateType() protoreflect.MessageType {
	privOnce.Do(func() {
		fdp := &descriptorpb.FileDescriptorProto{
			Name: proto.String("verif/v1/private.proto"), Package: proto.String("verif.v1"), Syntax: proto.String("proto3"),
			MessageType: []*descriptorpb.DescriptorProto{{Name: proto.String("Private"), Field: []*descriptorpb.FieldDescriptorProto{{
				Name: proto.String("note"), JsonName: proto.String("note"), Number: proto.Int32(1),
				Label: descriptorpb.FieldDescriptorProto_LABEL_OPTIONAL.Enum(), Type: descriptorpb.FieldDescriptorProto_TYPE_STRING.Enum()}}}},
		}
		fd, err := protodesc.NewFile(fdp, &protoregistry.Files{})
		if err != nil {
			panic(err)
		}
		privType = dynamicpb.NewMessageType(fd.Messages().Get(0))
	})
	return privType
}

// extraTypes: further types known to the harness's reference codecs only (registered by checks at set-up time).
var extraTypes sync.Map // full name -> protoreflect.MessageType

// privResolver knows the private type(s) and everything the global registry knows.
type privResolver struct{}

func (privResolver) FindMessageByName(name protoreflect.FullName) (protoreflect.MessageType, error) {
	if name == privName {
		return privateType(), nil
	}
	if t, ok := extraTypes.Load(string(name)); ok {
		return t.(protoreflect.MessageType), nil
	}
	return protoregistry.GlobalTypes.FindMessageByName(name)
}

func (p privResolver) FindMessageByURL(url string) (protoreflect.MessageType, error) {
	if i := strings.LastIndexByte(url, '/'); i >= 0 {
		if url[i+1:] == privName {
			return privateType(), nil
		}
		if t, ok := extraTypes.Load(url[i+1:]); ok {
			return t.(protoreflect.MessageType), nil
		}
	}
	return protoregistry.GlobalTypes.FindMessageByURL(url)
}

func (privResolver) FindExtensionByName(name protoreflect.FullName) (protoreflect.ExtensionType, error) {
	return protoregistry.GlobalTypes.FindExtensionByName(name)
}

func (privResolver) FindExtensionByNumber(message protoreflect.FullName, field protoreflect.FieldNumber) (protoreflect.ExtensionType, error) {
	return protoregistry.GlobalTypes.FindExtensionByNumber(message, field)
}

// privateAny packs a Private{note} into an Any.
func privateAny(note string) *anypb.Any {
	m := privateType().New()
	m.Set(m.Descriptor().Fields().ByName("note"), protoreflect.ValueOfString(note))
	b, _ := proto.Marshal(m.Interface())
	return &anypb.Any{TypeUrl: "type.googleapis.com/" + privName, Value: b}
}
