package main

// Raw client: builds *http.Request values for the six client wire forms and parses
// (strictly validates) the responses.

import (
	"encoding/base64"
	"encoding/json"
	"fmt"
	"io"
	"math/rand/v2"
	"net/http"
	"net/http/httptest"
	"net/textproto"
	"net/url"
	"sort"
	"strconv"
	"strings"

	"google.golang.org/genproto/googleapis/rpc/status"
	"google.golang.org/protobuf/encoding/protojson"
	"google.golang.org/protobuf/proto"
	"google.golang.org/protobuf/reflect/protoreflect"
	"google.golang.org/protobuf/types/known/anypb"
)

type protoMsg = proto.Message

type ClientForm int

const (
	FConnectUnary ClientForm = iota
	FConnectGet
	FConnectStream
	FGRPC
	FGRPCWeb
	FREST
	numForms
)

var formNames = []string{"connect-unary", "connect-get", "connect-stream", "grpc", "grpc-web", "rest"}

func (f ClientForm) String() string { return formNames[f] }

func (f ClientForm) Protocol() string {
	switch f {
	case FConnectUnary, FConnectGet, FConnectStream:
		return "connect"
	case FGRPC:
		return "grpc"
	case FGRPCWeb:
		return "grpcweb"
	}
	return "rest"
}

func (f ClientForm) Enveloped() bool { return f == FConnectStream || f == FGRPC || f == FGRPCWeb }

// ClientReq is a logical client request.
type ClientReq struct {
	Form      ClientForm
	M         *MethodInfo
	Codec     string
	Comp      string   // request compression ("" = none)
	Accept    []string // response compressions the client accepts
	Msgs      []proto.Message
	FrameComp []bool // enveloped forms: compress frame i (only if Comp != "")
	App       http.Header
	Timeout   string // raw header value in the form's timeout header ("" = none)
	HTTP2     bool
	HTTP3     bool // the request arrives over HTTP/3 (ignored for gRPC clients, which require HTTP/2)
	ForceHTTP1 bool
	DeclLen   bool // declare Content-Length
	BareCT    bool // gRPC: "application/grpc" without +proto
	CTSuffix  string

	// Connect GET choices
	GetNoBase64 bool // send the message percent-encoded instead of base64 (any codec, compressed or not)
	GetPadded   bool
	GetViaQuery bool // classify via connect=v1 (true) or Connect-Protocol-Version header (false)

	// REST
	Binding *Binding
	Render  renderChoices
	Rest    *RESTReq // filled by Build for REST

	// raw overrides (fault injection)
	RawBody     []byte
	UseRawBody  bool
	RawTarget   string
	HTTPMethod  string
	Extra       http.Header // extra / overriding raw headers applied last
	DropHeaders []string
}

type BuiltReq struct {
	Req  *http.Request
	Body *ScriptBody
	Raw  []byte
}

func encName(form ClientForm) (enc, accept, timeout string) {
	switch form {
	case FConnectStream:
		return "Connect-Content-Encoding", "Connect-Accept-Encoding", "Connect-Timeout-Ms"
	case FGRPC, FGRPCWeb:
		return "Grpc-Encoding", "Grpc-Accept-Encoding", "Grpc-Timeout"
	case FREST:
		return "Content-Encoding", "Accept-Encoding", "X-Server-Timeout"
	}
	return "Content-Encoding", "Accept-Encoding", "Connect-Timeout-Ms"
}

// Build renders the request. r drives rendering choices only.
func (c *ClientReq) Build(r *rand.Rand) (*BuiltReq, error) {
	hdr := http.Header{}
	for k, v := range c.App {
		hdr[k] = append([]string(nil), v...)
	}
	method := "POST"
	target := c.M.Path
	var body []byte
	encH, accH, toH := encName(c.Form)
	switch c.Form {
	case FConnectUnary:
		if len(c.Msgs) != 1 {
			return nil, fmt.Errorf("connect unary needs exactly 1 message")
		}
		data, err := encodeMsg(c.Codec, c.Msgs[0])
		if err != nil {
			return nil, err
		}
		body = compressWith(c.Comp, data)
		hdr.Set("Content-Type", "application/"+c.Codec+c.CTSuffix)
		hdr.Set("Connect-Protocol-Version", "1")
		if c.Comp != "" {
			hdr.Set(encH, c.Comp)
		}
	case FConnectGet:
		method = "GET"
		data, err := encodeMsg(c.Codec, c.Msgs[0])
		if err != nil {
			return nil, err
		}
		q := url.Values{}
		if c.GetViaQuery {
			q.Set("connect", "v1")
		} else {
			hdr.Set("Connect-Protocol-Version", "1")
		}
		q.Set("encoding", c.Codec)
		if c.Comp != "" {
			data = compressWith(c.Comp, data)
			q.Set("compression", c.Comp)
		}
		if c.GetNoBase64 {
			// "base64" and "compression" are independent: a binary or compressed message may travel percent-encoded
			q.Set("message", string(data))
		} else {
			q.Set("base64", "1")
			if c.GetPadded {
				q.Set("message", base64.URLEncoding.EncodeToString(data))
			} else {
				q.Set("message", base64.RawURLEncoding.EncodeToString(data))
			}
		}
		target = c.M.Path + "?" + q.Encode()
	case FConnectStream, FGRPC, FGRPCWeb:
		for i, m := range c.Msgs {
			data, err := encodeMsg(c.Codec, m)
			if err != nil {
				return nil, err
			}
			var flags byte
			if c.Comp != "" && i < len(c.FrameComp) && c.FrameComp[i] {
				data = compressWith(c.Comp, data)
				flags = 1
			}
			body = appendFrame(body, flags, data)
		}
		switch c.Form {
		case FConnectStream:
			hdr.Set("Content-Type", "application/connect+"+c.Codec)
		case FGRPC:
			if c.BareCT && c.Codec == "proto" {
				hdr.Set("Content-Type", "application/grpc")
			} else {
				hdr.Set("Content-Type", "application/grpc+"+c.Codec)
			}
			hdr.Set("Te", "trailers")
		case FGRPCWeb:
			if c.BareCT && c.Codec == "proto" {
				hdr.Set("Content-Type", "application/grpc-web")
			} else {
				hdr.Set("Content-Type", "application/grpc-web+"+c.Codec)
			}
		}
		if c.Comp != "" {
			hdr.Set(encH, c.Comp)
		}
	case FREST:
		if c.Binding == nil {
			return nil, fmt.Errorf("REST request without binding")
		}
		rr := c.Rest
		if rr == nil {
			var err error
			rr, err = renderREST(c.Binding, c.Msgs[0], r, c.Render)
			if err != nil {
				return nil, err
			}
			c.Rest = rr
		}
		method = rr.Method
		target = rr.RawPath
		if rr.RawQuery != "" {
			target += "?" + rr.RawQuery
		}
		if !rr.HasBody {
			c.Comp = "" // nothing to compress: no Content-Encoding is declared
		}
		if rr.HasBody {
			body = compressWith(c.Comp, rr.Body)
			if rr.ContentType != "" {
				hdr.Set("Content-Type", rr.ContentType)
			}
			if c.Comp != "" {
				hdr.Set(encH, c.Comp)
			}
		}
	}
	if len(c.Accept) > 0 {
		hdr.Set(accH, strings.Join(c.Accept, ", "))
	}
	if c.Timeout != "" {
		hdr.Set(toH, c.Timeout)
	}
	if c.UseRawBody {
		body = c.RawBody
	}
	if c.RawTarget != "" {
		target = c.RawTarget
	}
	if c.HTTPMethod != "" {
		method = c.HTTPMethod
	}
	for _, k := range c.DropHeaders {
		hdr.Del(k)
	}
	for k, v := range c.Extra {
		hdr[k] = append([]string(nil), v...)
	}
	sb := &ScriptBody{Data: body}
	req, err := newServerRequest(method, target, sb)
	if err != nil {
		return nil, err
	}
	req.Header = hdr
	if (c.HTTP2 || c.Form == FGRPC) && !c.ForceHTTP1 {
		req.Proto, req.ProtoMajor, req.ProtoMinor = "HTTP/2.0", 2, 0
	}
	if c.HTTP3 && c.Form != FGRPC && !c.ForceHTTP1 {
		// what an HTTP/3 server (e.g. quic-go) hands to its handler
		req.Proto, req.ProtoMajor, req.ProtoMinor = "HTTP/3.0", 3, 0
	}
	req.ContentLength = -1
	if c.DeclLen || (len(body) == 0 && method == "GET") {
		req.ContentLength = int64(len(body))
		if len(body) > 0 || method != "GET" {
			hdr.Set("Content-Length", strconv.Itoa(len(body)))
		}
	}
	return &BuiltReq{Req: req, Body: sb, Raw: body}, nil
}

// newServerRequest parses the request target the way a server does.
func newServerRequest(method, target string, body io.ReadCloser) (req *http.Request, err error) {
	defer func() {
		if r := recover(); r != nil {
			err = fmt.Errorf("unparsable request line: %v", r)
		}
	}()
	req = httptest.NewRequest(method, target, nil)
	req.Body = body
	return req, nil
}

// ---------------------------------------------------------------------------
// Outcomes
// ---------------------------------------------------------------------------

type Detail struct {
	Type  string // full type URL suffix (message full name)
	Value []byte
}

type Outcome struct {
	Malformed []string // strict-validator complaints; empty = well-formed
	Status    int
	Kind      string // "ok", "error" (RPC error in the client's protocol), "httperror" (bare HTTP failure)
	Code      int
	Msg       string
	Details   []Detail
	RawMsgs   [][]byte // decompressed message payloads, in order
	badFrames map[int]bool
	Msgs      []proto.Message
	DecodeErr []string
	Headers   http.Header // everything the client saw in the head
	Trailers  http.Header // application trailers in the place the protocol defines
	Ends      int         // terminal dispositions seen
	Undecodable bool      // declared compression does not match the bytes
	CT        string
	Enc       string
}

func (o *Outcome) bad(format string, args ...any) {
	o.Malformed = append(o.Malformed, fmt.Sprintf(format, args...))
}

func (o *Outcome) OK() bool { return o.Kind == "ok" }

// markUndecodableFrame records that the message at index i of RawMsgs was flagged
// compressed but is not in the declared compression: no client can decode it.
func (o *Outcome) markUndecodableFrame(i int) {
	if o.badFrames == nil {
		o.badFrames = map[int]bool{}
	}
	o.badFrames[i] = true
}

func (o *Outcome) Summary() string {
	return fmt.Sprintf("status=%d kind=%s code=%d msg=%q details=%d msgs=%d malformed=%v ct=%q enc=%q",
		o.Status, o.Kind, o.Code, o.Msg, len(o.Details), len(o.RawMsgs), o.Malformed, o.CT, o.Enc)
}

func contains(xs []string, s string) bool {
	for _, x := range xs {
		if x == s {
			return true
		}
	}
	return false
}

type connectErrJSON struct {
	Code    string `json:"code"`
	Message string `json:"message"`
	Details []struct {
		Type  string          `json:"type"`
		Value string          `json:"value"`
		Debug json.RawMessage `json:"debug"`
	} `json:"details"`
}

func (o *Outcome) fromConnectErr(e *connectErrJSON) {
	code, ok := codeFromName(e.Code)
	if n, err := strconv.ParseUint(strings.TrimPrefix(e.Code, "code_"), 10, 32); !ok && strings.HasPrefix(e.Code, "code_") && err == nil {
		code, ok = int(n), true // connect-go's rendering of codes without a name
	}
	if !ok {
		o.bad("connect error code %q is not a defined code name", e.Code)
		code = 2
	}
	o.Kind, o.Code, o.Msg = "error", code, e.Message
	for _, d := range e.Details {
		v, err := base64.RawStdEncoding.DecodeString(strings.TrimRight(d.Value, "="))
		if err != nil {
			o.bad("connect error detail value is not base64: %v", err)
			continue
		}
		o.Details = append(o.Details, Detail{Type: d.Type, Value: v})
	}
}

func (o *Outcome) fromStatusProto(st *status.Status) {
	o.Kind, o.Code, o.Msg = "error", int(st.GetCode()), st.GetMessage()
	for _, a := range st.GetDetails() {
		o.Details = append(o.Details, Detail{Type: strings.TrimPrefix(a.GetTypeUrl(), "type.googleapis.com/"), Value: a.GetValue()})
	}
}

// ParseResponse validates and decodes what the client received.
func ParseResponse(c *ClientReq, rec *Recorder) *Outcome {
	o := &Outcome{Status: rec.Code, Headers: rec.HeadersSent(), Trailers: http.Header{}}
	h := o.Headers
	o.CT = h.Get("Content-Type")
	for _, f := range rec.Faults {
		o.bad("http framing: %s", f)
	}
	if rec.HeadWrites > 1 {
		o.bad("%d response heads written", rec.HeadWrites)
	}
	if len(rec.After) > 0 {
		o.bad("I/O after ServeHTTP returned: %v", rec.After)
	}
	body := rec.Body.Bytes()
	if cl := h.Get("Content-Length"); cl != "" {
		if n, err := strconv.Atoi(cl); err != nil || n != len(body) {
			o.bad("Content-Length %q but body has %d bytes", cl, len(body))
		}
	}
	for _, k := range []string{"Content-Type", "Content-Encoding", "Connect-Content-Encoding", "Grpc-Encoding", "Grpc-Status", "Content-Length"} {
		if len(h.Values(k)) > 1 {
			o.bad("header %s has %d values", k, len(h.Values(k)))
		}
	}
	httpTrailers := rec.Trailers()
	switch c.Form {
	case FConnectUnary, FConnectGet:
		parseConnectUnary(c, o, body, httpTrailers)
	case FConnectStream:
		parseConnectStream(c, o, body, httpTrailers)
	case FGRPC:
		parseGRPC(c, o, body, httpTrailers, false)
	case FGRPCWeb:
		parseGRPC(c, o, body, httpTrailers, true)
	case FREST:
		parseREST(c, o, body, httpTrailers)
	}
	// decode messages with the method's output type
	if o.Kind == "ok" || len(o.RawMsgs) > 0 {
		for i, raw := range o.RawMsgs {
			m := newMsg(c.M.Out())
			var err error
			if o.Undecodable || o.badFrames[i] {
				o.Msgs = append(o.Msgs, nil)
				continue
			}
			if c.Form == FREST {
				err = decodeRESTResponse(c, raw, o.CT, m)
			} else {
				err = decodeMsg(c.Codec, raw, m)
			}
			if err != nil {
				o.DecodeErr = append(o.DecodeErr, fmt.Sprintf("message %d: %v", i, err))
				o.bad("response message %d does not decode with codec %s: %v", i, c.Codec, err)
				o.Msgs = append(o.Msgs, nil)
				continue
			}
			o.Msgs = append(o.Msgs, m)
		}
	}
	return o
}

func acceptable(c *ClientReq, enc string) bool {
	return enc == "" || enc == "identity" || contains(c.Accept, enc) || enc == c.Comp
}

func httpErrorOutcome(o *Outcome) {
	o.Kind = "httperror"
	o.Code = codeFromHTTP(o.Status)
	if o.Status < 400 {
		o.bad("status %d is neither 200 nor an HTTP error", o.Status)
	}
}

func jsonCT(ct string) bool {
	base, _, _ := strings.Cut(ct, ";")
	return strings.TrimSpace(strings.ToLower(base)) == "application/json"
}

func parseConnectUnary(c *ClientReq, o *Outcome, body []byte, httpTrailers http.Header) {
	h := o.Headers
	for k, v := range h {
		if strings.HasPrefix(k, "Trailer-") {
			o.Trailers[strings.TrimPrefix(k, "Trailer-")] = v
		}
	}
	enc := h.Get("Content-Encoding")
	o.Enc = enc
	if o.Status == 200 {
		o.Ends++
		o.Kind = "ok"
		if o.CT != "application/"+c.Codec {
			o.bad("connect unary success content-type %q, want %q", o.CT, "application/"+c.Codec)
		}
		if !acceptable(c, enc) {
			o.bad("Content-Encoding %q was not offered by the client", enc)
		}
		data, err := decompressBody(enc, body)
		if err != nil {
			o.bad("body does not match declared Content-Encoding %q: %v", enc, err)
			data = nil
			o.Undecodable = true
		}
		o.RawMsgs = append(o.RawMsgs, data)
		return
	}
	if !jsonCT(o.CT) {
		httpErrorOutcome(o)
		return
	}
	o.Ends++
	data, err := decompressBody(enc, body)
	if err != nil {
		o.bad("error body does not match declared Content-Encoding %q: %v", enc, err)
		data = body
	}
	var e connectErrJSON
	if err := json.Unmarshal(data, &e); err != nil {
		o.bad("connect unary error body is not error JSON: %v", err)
		httpErrorOutcome(o)
		return
	}
	if _, ok := codeFromName(e.Code); !ok && !strings.HasPrefix(e.Code, "code_") {
		// not a Connect error object: a client falls back to the HTTP status (Connect spec)
		o.bad("connect unary error body has no valid code (%q)", e.Code)
		httpErrorOutcome(o)
		return
	}
	o.fromConnectErr(&e)
	if want, ok := httpFromCode[o.Code]; ok && want != o.Status {
		o.bad("HTTP status %d for code %s, table says %d", o.Status, codeName(o.Code), want)
	}
}

func parseConnectStream(c *ClientReq, o *Outcome, body []byte, httpTrailers http.Header) {
	h := o.Headers
	if o.Status != 200 {
		httpErrorOutcome(o)
		return
	}
	if o.CT != "application/connect+"+c.Codec {
		o.bad("connect stream content-type %q, want %q", o.CT, "application/connect+"+c.Codec)
	}
	enc := h.Get("Connect-Content-Encoding")
	o.Enc = enc
	if !acceptable(c, enc) {
		o.bad("Connect-Content-Encoding %q was not offered by the client", enc)
	}
	if ce := h.Get("Content-Encoding"); ce != "" && ce != "identity" {
		o.bad("Content-Encoding %q on an enveloped response", ce)
	}
	frames, rest := parseFrames(body)
	if len(rest) > 0 {
		o.bad("response ends inside a frame (%d stray bytes)", len(rest))
	}
	for i, f := range frames {
		if f.Flags&^3 != 0 {
			o.bad("frame %d has invalid flags 0x%02x", i, f.Flags)
			continue
		}
		if o.Ends > 0 {
			o.bad("frame %d follows the end-of-stream frame", i)
		}
		payload := f.Payload
		if f.Flags&1 != 0 {
			if enc == "" || enc == "identity" {
				o.bad("frame %d is flagged compressed but no Connect-Content-Encoding was declared", i)
			} else if d, err := decompressWith(enc, payload); err != nil {
				o.bad("frame %d flagged compressed does not decompress with %s: %v", i, enc, err)
				if f.Flags&^1 == 0 {
					o.markUndecodableFrame(len(o.RawMsgs))
				}
			} else {
				payload = d
			}
		}
		if f.Flags&2 != 0 {
			o.Ends++
			var end struct {
				Error    *connectErrJSON     `json:"error"`
				Metadata map[string][]string `json:"metadata"`
			}
			if err := json.Unmarshal(payload, &end); err != nil {
				o.bad("end-of-stream payload is not JSON: %v", err)
				o.Kind = "error"
				o.Code = 2
				continue
			}
			for k, v := range end.Metadata {
				o.Trailers[textproto.CanonicalMIMEHeaderKey(k)] = v
			}
			if end.Error != nil {
				o.fromConnectErr(end.Error)
			} else {
				o.Kind = "ok"
			}
			continue
		}
		o.RawMsgs = append(o.RawMsgs, payload)
	}
	if o.Ends == 0 {
		o.bad("no end-of-stream frame")
		o.Kind = "error"
		o.Code = 2
	}
	if o.Ends > 1 {
		o.bad("%d end-of-stream frames", o.Ends)
	}
}

func grpcEndFromHeaders(o *Outcome, src http.Header, where string) {
	st := src.Get("Grpc-Status")
	n, err := strconv.ParseUint(st, 10, 32)
	if err != nil {
		o.bad("grpc-status %q in %s is not a number", st, where)
		o.Kind, o.Code = "error", 2
		return
	}
	if len(src.Values("Grpc-Status")) != 1 {
		o.bad("grpc-status has %d values in %s", len(src.Values("Grpc-Status")), where)
	}
	rawMsg := src.Get("Grpc-Message")
	msg, err := grpcPctDecode(rawMsg)
	if err != nil {
		o.bad("grpc-message %q is not valid percent-encoding: %v", rawMsg, err)
		msg = rawMsg
	}
	if n == 0 {
		o.Kind = "ok"
	} else {
		o.Kind, o.Code, o.Msg = "error", int(n), msg
	}
	if bin := src.Get("Grpc-Status-Details-Bin"); bin != "" {
		data, err := decodeBinHeader(bin)
		if err != nil {
			o.bad("grpc-status-details-bin is not base64: %v", err)
			return
		}
		var st status.Status
		if err := proto.Unmarshal(data, &st); err != nil {
			o.bad("grpc-status-details-bin is not a google.rpc.Status: %v", err)
			return
		}
		if int(st.GetCode()) != int(n) {
			o.bad("grpc-status %d disagrees with details-bin code %d", n, st.GetCode())
		}
		if n != 0 {
			if st.GetMessage() != msg {
				o.bad("grpc-message %q disagrees with details-bin message %q", msg, st.GetMessage())
			}
			for _, a := range st.GetDetails() {
				o.Details = append(o.Details, Detail{Type: strings.TrimPrefix(a.GetTypeUrl(), "type.googleapis.com/"), Value: a.GetValue()})
			}
		}
	}
}

var grpcStatusKeys = []string{"Grpc-Status", "Grpc-Message", "Grpc-Status-Details-Bin"}

func parseGRPC(c *ClientReq, o *Outcome, body []byte, httpTrailers http.Header, web bool) {
	h := o.Headers
	if o.Status != 200 {
		httpErrorOutcome(o)
		return
	}
	prefix := "application/grpc"
	if web {
		prefix = "application/grpc-web"
	}
	if !(o.CT == prefix+"+"+c.Codec || (c.Codec == "proto" && o.CT == prefix)) {
		o.bad("content-type %q, want %s+%s", o.CT, prefix, c.Codec)
	}
	enc := h.Get("Grpc-Encoding")
	o.Enc = enc
	if !acceptable(c, enc) {
		o.bad("Grpc-Encoding %q was not offered by the client", enc)
	}
	if ce := h.Get("Content-Encoding"); ce != "" && ce != "identity" {
		o.bad("Content-Encoding %q on an enveloped response", ce)
	}
	frames, rest := parseFrames(body)
	if len(rest) > 0 {
		o.bad("response ends inside a frame (%d stray bytes)", len(rest))
	}
	inHeaders := len(h.Values("Grpc-Status")) > 0
	if inHeaders {
		o.Ends++
		grpcEndFromHeaders(o, h, "headers")
		for k, v := range h {
			o.Trailers[k] = v // trailers-only: metadata and trailers share the head
		}
		if len(body) > 0 {
			o.bad("trailers-only response (grpc-status in headers) carries %d body bytes", len(body))
		}
	}
	sawTrailerFrame := false
	for i, f := range frames {
		if web && f.Flags&0x80 != 0 {
			if f.Flags&^0x81 != 0 {
				o.bad("trailer frame %d has invalid flags 0x%02x", i, f.Flags)
			}
			if sawTrailerFrame {
				o.bad("more than one trailer frame")
			}
			sawTrailerFrame = true
			o.Ends++
			payload := f.Payload
			if f.Flags&1 != 0 {
				if d, err := decompressWith(enc, payload); err != nil || enc == "" {
					o.bad("compressed trailer frame does not decompress: %v", err)
				} else {
					payload = d
				}
			}
			tr := http.Header{}
			for _, line := range strings.Split(string(payload), "\r\n") {
				if line == "" {
					continue
				}
				k, v, ok := strings.Cut(line, ":")
				if !ok {
					o.bad("trailer frame line %q has no colon", line)
					continue
				}
				tr.Add(textproto.CanonicalMIMEHeaderKey(strings.TrimSpace(k)), strings.TrimSpace(v))
			}
			if len(tr.Values("Grpc-Status")) == 0 {
				o.bad("trailer frame without grpc-status")
				o.Kind, o.Code = "error", 2
			} else {
				grpcEndFromHeaders(o, tr, "trailer frame")
			}
			for k, v := range tr {
				o.Trailers[k] = v
			}
			continue
		}
		if f.Flags != 0 && f.Flags != 1 {
			o.bad("frame %d has invalid flags 0x%02x", i, f.Flags)
			continue
		}
		if sawTrailerFrame {
			o.bad("frame %d follows the trailer frame", i)
		}
		payload := f.Payload
		if f.Flags == 1 {
			if enc == "" || enc == "identity" {
				o.bad("frame %d is flagged compressed but no Grpc-Encoding was declared", i)
			} else if d, err := decompressWith(enc, payload); err != nil {
				o.bad("frame %d flagged compressed does not decompress with %s: %v", i, enc, err)
				if f.Flags&^1 == 0 {
					o.markUndecodableFrame(len(o.RawMsgs))
				}
			} else {
				payload = d
			}
		}
		o.RawMsgs = append(o.RawMsgs, payload)
	}
	if !web {
		if len(httpTrailers.Values("Grpc-Status")) > 0 {
			o.Ends++
			if inHeaders {
				o.bad("grpc-status both in headers and in trailers")
			} else {
				grpcEndFromHeaders(o, httpTrailers, "trailers")
			}
			for k, v := range httpTrailers {
				o.Trailers[k] = v
			}
		}
	} else if len(httpTrailers.Values("Grpc-Status")) > 0 {
		o.bad("gRPC-Web response uses HTTP trailers for grpc-status")
	}
	if o.Ends == 0 {
		o.bad("no grpc-status anywhere")
		o.Kind, o.Code = "error", 2
	}
	if o.Ends > 1 {
		o.bad("%d terminal dispositions", o.Ends)
	}
	for _, k := range grpcStatusKeys {
		delete(o.Trailers, k)
	}
}

func parseREST(c *ClientReq, o *Outcome, body []byte, httpTrailers http.Header) {
	h := o.Headers
	enc := h.Get("Content-Encoding")
	o.Enc = enc
	o.Ends++
	data, err := decompressBody(enc, body)
	if err != nil {
		o.bad("body does not match declared Content-Encoding %q: %v", enc, err)
		data = body
		o.Undecodable = true
	}
	if !acceptable(c, enc) {
		o.bad("Content-Encoding %q was not offered by the client", enc)
	}
	if o.Status/100 == 2 {
		o.Kind = "ok"
		o.RawMsgs = append(o.RawMsgs, data)
		return
	}
	if !jsonCT(o.CT) {
		httpErrorOutcome(o)
		return
	}
	var st status.Status
	if err := (protojson.UnmarshalOptions{}).Unmarshal(data, &st); err != nil {
		// details of unknown types make protojson fail; retry leniently for code/message
		var lenient struct {
			Code    int    `json:"code"`
			Message string `json:"message"`
		}
		if err2 := json.Unmarshal(data, &lenient); err2 != nil {
			o.bad("REST error body is not google.rpc.Status JSON: %v", err)
			httpErrorOutcome(o)
			return
		}
		st.Code, st.Message = int32(lenient.Code), lenient.Message
	}
	if st.GetCode() == 0 {
		// not a google.rpc.Status error: only the HTTP status speaks
		o.bad("REST error body carries no error code")
		httpErrorOutcome(o)
		return
	}
	o.fromStatusProto(&st)
	if want, ok := httpFromCode[o.Code]; ok && want != o.Status {
		o.bad("HTTP status %d for code %s, table says %d", o.Status, codeName(o.Code), want)
	}
}

// decodeRESTResponse decodes a REST success body into a full response message using the
// binding's response_body selector.
func decodeRESTResponse(c *ClientReq, data []byte, ct string, into proto.Message) error {
	b := c.Binding
	m := into.ProtoReflect()
	if b == nil || b.RespBody == "" || b.RespBody == "*" {
		if isHTTPBodyMsg(m.Descriptor()) {
			m.Set(m.Descriptor().Fields().ByName("data"), protoreflect.ValueOfBytes(data))
			m.Set(m.Descriptor().Fields().ByName("content_type"), protoreflect.ValueOfString(ct))
			return nil
		}
		if !jsonCT(ct) {
			return fmt.Errorf("REST success content-type %q is not JSON", ct)
		}
		return protojson.Unmarshal(data, into)
	}
	fd := m.Descriptor().Fields().ByName(protoreflect.Name(b.RespBody))
	if fd == nil {
		return fmt.Errorf("no response_body field %q", b.RespBody)
	}
	if !(fd.Message() != nil && isHTTPBodyMsg(fd.Message())) && !jsonCT(ct) {
		return fmt.Errorf("REST success content-type %q is not JSON", ct)
	}
	return setFieldJSON(m, fd, data, ct)
}

// detailAny builds an Any for error details.
func detailAny(m proto.Message) *anypb.Any {
	a, err := anypb.New(m)
	if err != nil {
		panic(err)
	}
	return a
}

func sortedKeys(h http.Header) []string {
	var ks []string
	for k := range h {
		ks = append(ks, k)
	}
	sort.Strings(ks)
	return ks
}
