package main

import (
	"bufio"
	"bytes"
	"context"
	"fmt"
	"io"
	"math/rand/v2"
	"net/http"
	"os"
	"path/filepath"
	"reflect"
	"runtime"
	"sort"
	"strings"
	"sync"
	"sync/atomic"
	"time"

	"connectrpc.com/vanguard"
	"github.com/anishathalye/porcupine"
	"google.golang.org/protobuf/proto"
)

func init() {
	register(&Property{
		ID:    "C14",
		Level: "exploration",
		Rule: "race-detector build. Round i is one of: (W1) M marker-carrying RPCs of mixed forms/codecs/compressions (incl. faulty ones) whose outcomes are first computed alone and then executed from G in {2,8,32} goroutines " +
			"on the same Transcoder, with yields injected at the hook points; oracle: each RPC's canonical outcome equals its solo outcome (computed with the monitor off, i.e. released buffers untouched) and carries no foreign marker. (W2) full-duplex streams: the handler reads the request stream and " +
			"writes the response stream from two goroutines while the request stream is fault-free or hits a malformed envelope / oversized frame / undecodable message / body error at a chosen message; oracle: fault-free streams deliver exactly " +
			"the handler's messages; faulted streams stay well-formed for the client's protocol (complete frames, a prefix of what the handler wrote, exactly one end). Monitors: (1) Go race detector (reports read from this process's GORACE log, " +
			"de-duplicated by the pair of innermost vanguard functions); (2) pool ownership automaton on the hook events (second release of a buffer or (de)compressor, hand-out of a live one) with whole-array poison on release, a check at the next hand-out that the poison is intact, and a quarantine, both detecting writes after release; " +
			"(W3) error paths one RPC at a time (tiny limits with chunked handler writes, messages failing inside the decompressor, cut bodies), each RPC run twice - monitor off, then on - and compared: a difference means a buffer was still read after its release (the monitor overwrites a buffer the moment it is released). (3) thorough: porcupine linearizability check of the recorded pool history against a sequential ownership model. Two run modes: A = no shared monitor state touched by both goroutines of a stream (the race log is the verdict), " +
			"B = effect monitors on. non-trivial = a round in which at least two RPCs overlapped / a stream in which both goroutines made progress between each other's hook points; distinct by (workload, G, fault, interleaving signature)",
		Assume: []string{"the handler may read the request body and write the response concurrently (net/http full duplex); it does not call ResponseWriter methods from two goroutines itself"},
		N:       func(t string) int { return tierN(t, 90, 1800) },
		Workers: 1,
		Setup:   c14Setup,
		Run:     runC14,
		Finish:  c14Finish,
		MinimaFor: func(t string) map[string]int {
			return map[string]int{"w1-rpcs-concurrent": tierN(t, 1200, 24000), "w2-streams": tierN(t, 150, 3000), "w2-both-sides-progressed": tierN(t, 60, 1200), "w3-rpcs-sequential": tierN(t, 1500, 30000), "w3-rpcs-failed": tierN(t, 300, 6000), "w3-twin-runs-compared": tierN(t, 1400, 28000)}
		},
	})
}

// ---- pool ownership automaton -------------------------------------------------------

type poolMon struct {
	mu          sync.Mutex
	live        map[*bytes.Buffer]bool
	codecLive   map[any]bool
	quarantine  []*bytes.Buffer
	useQuar     atomic.Bool
	enabled     atomic.Bool
	violations  []string
	gets, puts  int64
	history     []porcupine.Operation
	recordHist  bool
	clock       int64
	bufIDs      map[*bytes.Buffer]int
	putStack    map[*bytes.Buffer]string
}

var c14Pool = &poolMon{live: map[*bytes.Buffer]bool{}, codecLive: map[any]bool{}, bufIDs: map[*bytes.Buffer]int{}, putStack: map[*bytes.Buffer]string{}}

type poolEv struct {
	Buf int
	Get bool
}

func (p *poolMon) violate(s string) {
	if len(p.violations) < 20 {
		buf := make([]byte, 4096)
		buf = buf[:runtime.Stack(buf, false)]
		p.violations = append(p.violations, s+"\n"+string(buf))
	}
}

func (p *poolMon) id(b *bytes.Buffer) int {
	if id, ok := p.bufIDs[b]; ok {
		return id
	}
	id := len(p.bufIDs) + 1
	p.bufIDs[b] = id
	return id
}

// c14Monitor switches the ownership monitor. What it knew about buffers is forgotten when it is switched on again:
// while it was off, buffers it had seen released (and poisoned) were handed out, written and released unseen.
func c14Monitor(on bool) {
	p := c14Pool
	p.mu.Lock()
	if on && !p.enabled.Load() {
		p.live, p.codecLive = map[*bytes.Buffer]bool{}, map[any]bool{}
	}
	p.enabled.Store(on)
	p.mu.Unlock()
}

func c14Setup(c *Ctx) {
	p := c14Pool
	var yields atomic.Int64
	installCountingHooks(&vanguard.VerifHooks{
		Point: func(name string) {
			// stateless widening of interleavings: yield at the points between critical sections
			switch name {
			case "rw:reportEnd", "er:reportError", "tr:reportError", "tw:flush", "rw:flushHeaders", "msg:swap", "ew:envelope", "rw:reportEnd:flush":
				runtime.Gosched()
				if yields.Add(1)%7 == 0 {
					runtime.Gosched()
				}
			}
		},
		PoolGet: func(b *bytes.Buffer) {
			if !p.enabled.Load() {
				return
			}
			p.mu.Lock()
			p.gets++
			if p.live[b] {
				p.violate("buffer handed out while still owned (visible to two users at the same time)")
			}
			if live, known := p.live[b]; known && !live {
				// released (and poisoned) in this round, now handed out again: nobody may have written to it in between
				raw := b.Bytes()
				raw = raw[:cap(raw)]
				for off, x := range raw {
					if x != poisonByte {
						end := off
						for end < len(raw) && end < off+64 && raw[end] != poisonByte {
							end++
						}
						p.violate(fmt.Sprintf("buffer written after it was released to the pool (found when it was handed out again): %d foreign bytes at offset %d of %d: %q\n--- it had been released by:\n%s\n--- and is now handed out to:", end-off, off, len(raw), raw[off:end], p.putStack[b]))
						break
					}
				}
			}
			p.live[b] = true
			if p.recordHist {
				p.clock++
				p.history = append(p.history, porcupine.Operation{ClientId: 0, Input: poolEv{p.id(b), true}, Call: p.clock, Output: true, Return: p.clock})
			}
			p.mu.Unlock()
		},
		PoolPut: func(b *bytes.Buffer) bool {
			if !p.enabled.Load() {
				return false
			}
			p.mu.Lock()
			defer p.mu.Unlock()
			p.puts++
			if _, known := p.live[b]; known && !p.live[b] {
				p.violate("buffer released twice")
			}
			p.live[b] = false
			{
				st := make([]byte, 2048)
				p.putStack[b] = string(st[:runtime.Stack(st, false)])
			}
			if p.recordHist {
				p.clock++
				p.history = append(p.history, porcupine.Operation{ClientId: 0, Input: poolEv{p.id(b), false}, Call: p.clock, Output: true, Return: p.clock})
			}
			// poison the whole underlying array (Reset first: Bytes() starts at the read offset, and the part
			// already read would otherwise keep its old contents and be mistaken for a late write)
			b.Reset()
			raw := b.Bytes()
			raw = raw[:cap(raw)]
			for i := range raw {
				raw[i] = poisonByte
			}
			if p.useQuar.Load() {
				p.quarantine = append(p.quarantine, b)
				if len(p.quarantine) > 256 {
					old := p.quarantine[0]
					p.quarantine = p.quarantine[1:]
					or := old.Bytes()
					or = or[:cap(or)]
					for off, x := range or {
						if x != poisonByte {
							end := off
							for end < len(or) && end < off+64 && or[end] != poisonByte {
								end++
							}
							p.violate(fmt.Sprintf("buffer written after it was released to the pool (withheld from the pool since): %d foreign bytes at offset %d of %d: %q\n--- it had been released by:\n%s\n--- found at:", end-off, off, len(or), or[off:end], p.putStack[old]))
							break
						}
					}
					delete(p.putStack, old)
					delete(p.live, old)
				}
				return true // withheld from the pool
			}
			return false
		},
		PoolWrap: func(_ []byte, orig, res *bytes.Buffer) {
			// a marshalled form that outgrew the pooled buffer it was appended to lives on in a buffer of its own, which
			// is released to the pool later without ever having been taken from it: its ownership starts here
			if !p.enabled.Load() || res == orig {
				return
			}
			p.mu.Lock()
			p.live[res] = true
			if p.recordHist {
				p.clock++
				p.history = append(p.history, porcupine.Operation{ClientId: 0, Input: poolEv{p.id(res), true}, Call: p.clock, Output: true, Return: p.clock})
			}
			p.mu.Unlock()
		},
		CodecGet: func(pool, kind string, obj any) {
			if !p.enabled.Load() {
				return
			}
			p.mu.Lock()
			if p.codecLive[obj] {
				p.violate(kind + "or of pool " + pool + " handed out while in use")
			}
			p.codecLive[obj] = true
			p.mu.Unlock()
		},
		CodecPut: func(pool, kind string, obj any) {
			if !p.enabled.Load() {
				return
			}
			p.mu.Lock()
			if live, known := p.codecLive[obj]; known && !live {
				p.violate(kind + "or of pool " + pool + " released twice")
			}
			p.codecLive[obj] = false
			p.mu.Unlock()
		},
	})
}

// ---- W1: many RPCs on one transcoder ----------------------------------------------------

type c14RPC struct {
	gen int // index used in this RPC's markers (scenarios that cannot be generated are skipped, so it is not the slice index)
	s   *Scenario
	raw []byte
	ch  []int
	end error
}

func c14Run(p *c14RPC, r *rand.Rand) (*Exec, error) {
	creq := *p.s.Req
	creq.UseRawBody, creq.RawBody = true, p.raw
	script := *p.s.Script
	return runRPC(p.s.Cfg, &creq, &script, r, &execOpts{Chunks: p.ch, EndErr: p.end})
}

func markersOf(e *Exec) []string {
	var out []string
	for _, m := range e.Backend.Obs.Msgs {
		if m != nil {
			out = append(out, getMarker(m))
		}
	}
	for _, m := range e.Out.Msgs {
		if m != nil {
			out = append(out, getMarker(m))
		}
	}
	return out
}

func c14W1(c *Ctx, i int, r *rand.Rand, modeB bool) {
	cfgs := []*SvcConfig{genConfig(r), genConfig(r)}
	for _, cf := range cfgs {
		cf.Limit = 256 << 10
	}
	M := 32
	var rpcs []*c14RPC
	for k := 0; k < M; k++ {
		s := genScenario(r, ScenOpts{Cfg: cfgs[k%2], Variety: chance(r, 30)}, fmt.Sprintf("r%dk%d", i, k))
		if s == nil {
			continue
		}
		gopts := genOpts{noMaps: true, density: pick(r, []int{2, 8, 20}), maxStr: pick(r, []int{0, 200, 4000})}
		if s.Req.Form != FREST && s.Target != "rest" {
			for j := range s.Req.Msgs {
				o := gopts
				o.marker = fmt.Sprintf("r%dk%d/q%d", i, k, j)
				s.Req.Msgs[j] = genMessage(r, s.Req.M.In(), o)
			}
		}
		for j := range s.Script.Msgs {
			o := gopts
			o.marker = fmt.Sprintf("r%dk%d/p%d", i, k, j)
			s.Script.Msgs[j] = genMessage(r, s.Req.M.Out(), o)
		}
		built, err := s.Req.Build(r)
		if err != nil {
			continue
		}
		p := &c14RPC{gen: k, s: s, raw: built.Raw, ch: chunkPlan(r)}
		switch r.IntN(10) {
		case 0:
			p.raw = mutateBody(r, built.Raw)
		case 1:
			p.end = io.ErrUnexpectedEOF
			if len(p.raw) > 3 {
				p.raw = p.raw[:len(p.raw)/2]
			}
		case 2, 3:
			// a message that fails inside the decompressor, or inflates past the limit: the error branches that release pooled objects
			if raw := hostileCompressedRequest(r, s, pick(r, []string{"corrupt", "bomb"}), int(s.Cfg.Limit)); raw != nil {
				p.raw = raw
			}
		case 4:
			hostileCompressedResponse(r, s.Script, pick(r, []string{"corrupt", "bomb"}), int(s.Cfg.Limit))
		case 5:
			s.Script.BadEnd = pick(r, []string{"garbage", "empty", "corrupt"})
			if s.Script.BadEnd == "corrupt" {
				s.Script.Comp, s.Script.CompressEnd = "gzip", true
			}
		}
		rpcs = append(rpcs, p)
	}
	allMarkers := map[string]int{}
	for _, p := range rpcs {
		for _, m := range append(append([]proto.Message{}, p.s.Req.Msgs...), p.s.Script.Msgs...) {
			if mk := getMarker(m); strings.HasPrefix(mk, fmt.Sprintf("r%dk", i)) {
				allMarkers[mk] = p.gen // only the unique markers this round generated
			}
		}
	}
	// solo outcomes. "Alone" also means without the ownership monitor: released buffers keep their contents, so an RPC
	// that still READS a buffer it has released gets what it would get in production when nobody else is around, while
	// in the concurrent phase (monitor on in mode B) the release poisons the buffer, as a second RPC taking it would
	monitored := c14Pool.enabled.Load()
	c14Monitor(false)
	solo := make([]*Exec, len(rpcs))
	for k, p := range rpcs {
		e, err := c14Run(p, r)
		if err != nil {
			continue
		}
		solo[k] = e
	}
	c14Monitor(monitored)
	G := pick(r, []int{2, 8, 32})
	conc := make([]*Exec, len(rpcs))
	started := make([]int64, len(rpcs))
	finished := make([]int64, len(rpcs))
	var wg sync.WaitGroup
	var next atomic.Int64
	t0 := time.Now()
	seeds := make([]uint64, G)
	for g := range seeds {
		seeds[g] = r.Uint64()
	}
	for g := 0; g < G; g++ {
		wg.Add(1)
		go func(g int) {
			defer wg.Done()
			rr := rand.New(rand.NewPCG(seeds[g], 7))
			for {
				k := int(next.Add(1)) - 1
				if k >= len(rpcs) {
					return
				}
				if solo[k] == nil {
					continue
				}
				started[k] = int64(time.Since(t0))
				e, err := c14Run(rpcs[k], rr)
				finished[k] = int64(time.Since(t0))
				if err == nil {
					conc[k] = e
				}
			}
		}(g)
	}
	wg.Wait()
	overlapped := 0
	for a := range rpcs {
		for b := range rpcs {
			if a != b && started[a] < finished[b] && started[b] < finished[a] && conc[a] != nil && conc[b] != nil {
				overlapped++
				break
			}
		}
	}
	if overlapped >= 2 {
		c.Nontrivial(fmt.Sprintf("W1|%d|G%d|%d", i, G, overlapped))
	}
	c.CountN("w1-rpcs-overlapped", int64(overlapped))
	for k := range rpcs {
		if solo[k] == nil || conc[k] == nil {
			continue
		}
		c.Eval()
		c.Count("w1-rpcs-concurrent")
		detail := func() string {
			return fmt.Sprintf("round %d, %d goroutines, mode %s\n--- alone:\n%s--- concurrently:\n%s", i, G, map[bool]string{true: "B", false: "A"}[modeB], solo[k].Describe(), conc[k].Describe())
		}
		if conc[k].Panic != nil && solo[k].Panic == nil {
			c.Violate(i, "panic-only-under-concurrency/"+panicSite(conc[k].Stack), detail())
			continue
		}
		vs, vc := viewOf(solo[k]), viewOf(conc[k])
		if !reflect.DeepEqual(vs, vc) {
			c.Violate(i, "outcome-differs-under-concurrency/"+c20Field(vs, vc), fmt.Sprintf("alone: %+v\nconcurrent: %+v\n%s", vs, vc, detail()))
			continue
		}
		if !msgsEqual(solo[k].Backend.Obs.Msgs, conc[k].Backend.Obs.Msgs) || !msgsEqual(solo[k].Out.Msgs, conc[k].Out.Msgs) {
			c.Violate(i, "messages-differ-under-concurrency", detail())
			continue
		}
		prefix := fmt.Sprintf("r%dk%d/", i, rpcs[k].gen)
		alone := map[string]bool{}
		for _, mk := range markersOf(solo[k]) {
			alone[mk] = true // (a bit flipped in this RPC's own body can turn its marker into another RPC's: seen alone as well)
		}
		for _, mk := range markersOf(conc[k]) {
			// foreign = a marker that really belongs to another RPC of this round (a corrupted own marker is not)
			if owner, known := allMarkers[mk]; known && owner != rpcs[k].gen && !strings.HasPrefix(mk, prefix) && !alone[mk] {
				c.Violate(i, "foreign-marker-in-rpc", fmt.Sprintf("marker %q found in RPC %s (slice index %d; markers observed alone %q, concurrently %q)\n%s", mk, prefix, k, markersOf(solo[k]), markersOf(conc[k]), detail()))
			}
		}
	}
}

// ---- W2: full-duplex streams ----------------------------------------------------------------

type duplexHandler struct {
	k        *c16Case
	nWrite   int
	wrote    int32 // frames written by the writer goroutine
	read     int32
	readErr  error
	writeErr error
	progress [2]int32 // hook-free progress marks: how often each side ran while the other was between its steps
	mu       sync.Mutex
	panicked string
	closeAt  int      // > 0: the writer goroutine closes the request body after this many frames (the reader may be inside Read)
}

// recoverInto: a panic on a goroutine the handler started would take the whole server process down (net/http only
// recovers on its own goroutine); record it instead of dying with it.
func (h *duplexHandler) recoverInto(side string) {
	if p := recover(); p != nil {
		buf := make([]byte, 4096)
		h.mu.Lock()
		h.panicked = fmt.Sprintf("%s goroutine panicked: %v\n%s", side, p, buf[:runtime.Stack(buf, false)])
		h.mu.Unlock()
	}
}

func (h *duplexHandler) ServeHTTP(w http.ResponseWriter, r *http.Request) {
	ct := r.Header.Get("Content-Type")
	codec := ct[strings.LastIndex(ct, "+")+1:]
	isWeb := strings.HasPrefix(ct, "application/grpc-web")
	isGRPC := !isWeb && strings.HasPrefix(ct, "application/grpc")
	w.Header().Set("Content-Type", ct)
	var wg sync.WaitGroup
	wg.Add(2)
	go func() { // reader
		defer wg.Done()
		defer h.recoverInto("reader")
		br := bufio.NewReaderSize(r.Body, 512)
		buf := make([]byte, 64)
		for {
			n, err := br.Read(buf)
			if n > 0 {
				atomic.AddInt32(&h.read, 1)
			}
			if err != nil {
				if err != io.EOF {
					h.readErr = err
				}
				return
			}
			runtime.Gosched()
		}
	}()
	go func() { // writer
		defer wg.Done()
		defer h.recoverInto("writer")
		w.WriteHeader(200)
		for i := 0; i < h.nWrite; i++ {
			data, _ := encodeMsg(codec, h.k.resps[i%len(h.k.resps)])
			if _, err := w.Write(appendFrame(nil, 0, data)); err != nil {
				h.writeErr = err
				return
			}
			atomic.AddInt32(&h.wrote, 1)
			if h.closeAt > 0 && i+1 == h.closeAt {
				_ = r.Body.Close() // the response side gives up on the request
			}
			runtime.Gosched()
		}
	}()
	wg.Wait()
	switch {
	case isGRPC:
		w.Header().Set(http.TrailerPrefix+"Grpc-Status", "0")
	case isWeb:
		_, _ = w.Write(appendFrame(nil, 0x80, []byte("grpc-status: 0\r\n")))
	default:
		_, _ = w.Write(appendFrame(nil, 2, []byte("{}")))
	}
}

func c14W2(c *Ctx, i int, r *rand.Rand, modeB bool) {
	k := genC16(r, false)
	k.shape, k.method = stBidi, kitchenInfo["Bidi"]
	k.size = pick(r, []int{0, 16, 300})
	k.rounds = pick(r, []int{3, 8, 20})
	k.compC, k.compS = "", []string{}
	k.reqs, k.resps = nil, nil
	for j := 0; j < k.rounds; j++ {
		m := sizedMessage(k.method.In(), k.size, false, r)
		setMarker(m, fmt.Sprintf("q%d", j))
		k.reqs = append(k.reqs, m)
		m2 := sizedMessage(k.method.In(), k.size, false, r)
		setMarker(m2, fmt.Sprintf("p%d", j))
		k.resps = append(k.resps, m2)
	}
	k.cfg = &SvcConfig{Protocols: []string{k.target}, Codecs: []string{k.codecS}, Comps: []string{}, Limit: 4096}
	t, err := buildTranscoder(k.cfg, false)
	if err != nil {
		return
	}
	creq := k.clientReq()
	creq.Comp, creq.Accept = "", nil
	built, err := creq.Build(r)
	if err != nil {
		return
	}
	fault := pick(r, []string{"none", "none", "bad-envelope", "oversize-frame", "garbage-payload", "body-error", "truncated", "truncated-payload", "truncated-payload"})
	raw := append([]byte(nil), built.Raw...)
	spans := frameSpans(raw)
	at := r.IntN(len(spans))
	var endErr error
	switch fault {
	case "bad-envelope":
		raw[spans[at].start] = 0x7e
	case "oversize-frame":
		raw = append(raw[:spans[at].start:spans[at].start], appendFrame(nil, 0, make([]byte, 6000))...)
	case "garbage-payload":
		for j := 0; j < spans[at].plen; j++ {
			raw[spans[at].start+5+j] = 0xff
		}
		if spans[at].plen == 0 {
			fault = "none"
		}
	case "body-error":
		raw = raw[:spans[at].start+2]
		endErr = io.ErrUnexpectedEOF
	case "truncated":
		raw = raw[:spans[at].start+3]
	case "truncated-payload":
		// a clean end of the body in the middle of a payload (the envelope announced more)
		if spans[at].plen < 2 {
			raw = raw[:spans[at].start+3]
			fault = "truncated"
		} else {
			raw = raw[:spans[at].start+5+1+r.IntN(spans[at].plen-1)]
		}
	}
	h := &duplexHandler{k: k, nWrite: k.rounds}
	closing := fault == "none" && chance(r, 35)
	if closing {
		h.closeAt = 1 + r.IntN(k.rounds)
		fault = "handler-closes-request-body"
	}
	rec := newRecorder()
	if modeB {
		rec.Lock = &sync.Mutex{} // effect-monitor mode: keep the byte stream inspectable
	}
	sb := &ScriptBody{Data: raw, EndErr: endErr}
	if closing {
		sb.Lock = &sync.Mutex{} // like a net/http body, the scripted one tolerates Close during Read
	}
	for range raw {
		sb.Chunks = append(sb.Chunks, 1+r.IntN(7))
		if len(sb.Chunks) > 400 {
			break
		}
	}
	req, err := newServerRequest("POST", k.method.Path, sb)
	if err != nil {
		return
	}
	req.Header = built.Req.Header.Clone()
	req.Proto, req.ProtoMajor, req.ProtoMinor = "HTTP/2.0", 2, 0
	req.ContentLength = -1
	ctx := context.WithValue(context.Background(), ctxKey{}, http.Handler(h))
	var panicked any
	func() {
		defer func() { panicked = recover() }()
		t.ServeHTTP(rec, req.WithContext(ctx))
	}()
	rec.Finish()
	c.Eval()
	c.Count("w2-streams")
	c.Count("w2-fault:" + fault)
	if atomic.LoadInt32(&h.read) > 1 && atomic.LoadInt32(&h.wrote) > 1 {
		c.Count("w2-both-sides-progressed")
		c.Nontrivial(fmt.Sprintf("W2|%s|%s|%s|%d|%d", k.form, k.target, fault, h.read, h.wrote))
	}
	out := ParseResponse(creq, rec)
	detail := func() string {
		return fmt.Sprintf("duplex stream %s, fault=%s at request message %d, mode %s\nhandler: read steps=%d readErr=%v wrote=%d writeErr=%v\nclient got %d body bytes: %s",
			k, fault, at, map[bool]string{true: "B", false: "A"}[modeB], h.read, h.readErr, h.wrote, h.writeErr, rec.Body.Len(), out.Summary())
	}
	if panicked != nil {
		c.Violate(i, "panic-in-duplex-stream", fmt.Sprintf("%v\n%s", panicked, detail()))
		return
	}
	h.mu.Lock()
	hp := h.panicked
	h.mu.Unlock()
	if hp != "" {
		c.Violate(i, "panic-on-handler-goroutine/"+fault, fmt.Sprintf("%s\n%s", hp, detail()))
		return
	}
	// delivered response messages must be a prefix of what the handler wrote, frames intact
	for j, m := range out.Msgs {
		if m == nil || getMarker(m) != fmt.Sprintf("p%d", j) {
			c.Violate(i, "duplex-response-corrupted/"+fault, fmt.Sprintf("response message %d is not the handler's message %d\n%s", j, j, detail()))
			return
		}
	}
	if fault == "none" {
		if !out.OK() || len(out.Msgs) != k.rounds || len(out.Malformed) > 0 {
			c.Violate(i, "fault-free-duplex-stream-failed", detail())
		}
		return
	}
	if out.OK() && len(out.Msgs) == k.rounds && fault != "garbage-payload" {
		// the request-side fault went unnoticed: C09's business; here only isolation matters
		c.Count("w2-fault-unnoticed")
	}
	for _, mf := range out.Malformed {
		if strings.Contains(mf, "does not decode") {
			continue
		}
		c.Violate(i, "duplex-response-not-well-formed/"+fault+"/"+classify(mf), fmt.Sprintf("%s\n%s", mf, detail()))
	}
}

// ---- W3: sequential error paths under the ownership automaton ------------------------------------

func c14W3(c *Ctx, i int, r *rand.Rand) {
	for k := 0; k < 150; k++ {
		s := genScenario(r, ScenOpts{Variety: true}, fmt.Sprintf("w3r%dk%d", i, k))
		if s == nil {
			continue
		}
		cfg := *s.Cfg
		s.Cfg = &cfg
		cfg.Limit = 256 << 10
		var eo execOpts
		switch r.IntN(7) {
		case 6:
			s.Script.BadEnd = pick(r, []string{"garbage", "empty", "corrupt"})
			if s.Script.BadEnd == "corrupt" || chance(r, 30) {
				s.Script.Comp, s.Script.CompressEnd = "gzip", true
			}
		case 0, 1, 2:
			// a small limit and a handler that writes in pieces: the limit trips after part of a body was taken
			cfg.Limit = pick(r, []uint32{24, 48, 200, 1000})
			s.Script.WriteSeg = pick(r, [][]int{{2}, {4}, {8}, {16}, {40, 1 << 20}, {1, 1, 1, 1, 1, 2, 3, 1000}, {5, 7}, nil})
			s.Script.DeclLen = chance(r, 20)
			eo.Chunks = chunkPlan(r)
		case 3:
			if raw := hostileCompressedRequest(r, s, pick(r, []string{"corrupt", "bomb"}), int(cfg.Limit)); raw != nil {
				s.Req.UseRawBody, s.Req.RawBody = true, raw
			}
		case 4:
			hostileCompressedResponse(r, s.Script, pick(r, []string{"corrupt", "bomb"}), int(cfg.Limit))
		case 5:
			if chance(r, 50) {
				s.Script.CutAt = 1 + r.IntN(40)
				s.Script.EndAfterCut = chance(r, 50)
			} else {
				// an end-of-stream frame the transcoder cannot make sense of
				s.Script.BadEnd = pick(r, []string{"garbage", "empty", "corrupt"})
				if s.Script.BadEnd == "corrupt" || chance(r, 30) {
					s.Script.Comp, s.Script.CompressEnd = "gzip", true
				}
			}
		}
		// many small fields: any prefix that ends at a field boundary is itself a valid message
		for j := range s.Script.Msgs {
			if s.Req.Form != FREST && s.Target != "rest" && chance(r, 60) {
				s.Script.Msgs[j] = genMessage(r, s.Req.M.Out(), genOpts{noMaps: true, density: 40, maxStr: 6, simpleStr: true})
			}
		}
		// the same RPC first without the monitor (released buffers keep their contents), then with it (a release
		// poisons the buffer at once): an RPC that reads a buffer after releasing it answers differently
		built, berr := s.Req.Build(r)
		if berr != nil {
			continue
		}
		s.Req.UseRawBody, s.Req.RawBody = true, built.Raw
		seed := r.Uint64()
		twin := func() (*Exec, error) {
			cr, sc, o := *s.Req, *s.Script, eo
			return runRPC(s.Cfg, &cr, &sc, rand.New(rand.NewPCG(seed, 3)), &o)
		}
		c14Monitor(false)
		plain, perr := twin()
		c14Monitor(true)
		e, err := twin()
		if err != nil || perr != nil {
			continue
		}
		c.Eval()
		c.Count("w3-rpcs-sequential")
		if plain.Panic == nil && e.Panic == nil {
			c.Count("w3-twin-runs-compared")
			vp, vm := viewOf(plain), viewOf(e)
			d1, _ := seqDiff(plain.Backend.Obs.Msgs, e.Backend.Obs.Msgs, false)
			d2, _ := seqDiff(plain.Out.Msgs, e.Out.Msgs, false)
			if !reflect.DeepEqual(vp, vm) || !msgsEqual(plain.Backend.Obs.Msgs, e.Backend.Obs.Msgs) || !msgsEqual(plain.Out.Msgs, e.Out.Msgs) {
				// the witness must be replayable: the same pair again on a transcoder (and pool) of its own. A difference
				// that does not come back depended on what earlier RPCs had left in the shared pool; it is kept in the
				// evidence file as an unreproduced observation, and is not a verdict
				again := false
				if ft, ferr := buildTranscoder(s.Cfg, true); ferr == nil {
					retwin := func() (*Exec, error) {
						cr, sc, o := *s.Req, *s.Script, eo
						o.Transcoder = ft
						return runRPC(s.Cfg, &cr, &sc, rand.New(rand.NewPCG(seed, 3)), &o)
					}
					c14Monitor(false)
					p2, e1 := retwin()
					c14Monitor(true)
					m2, e2 := retwin()
					if e1 == nil && e2 == nil && p2.Panic == nil && m2.Panic == nil {
						again = !reflect.DeepEqual(viewOf(p2), viewOf(m2)) || !msgsEqual(p2.Backend.Obs.Msgs, m2.Backend.Obs.Msgs) || !msgsEqual(p2.Out.Msgs, m2.Out.Msgs)
					}
				}
				if !again {
					c.Count("w3-twin-difference-not-reproduced")
					c.SetExtra(fmt.Sprintf("unreproduced_twin_difference_round_%d_rpc_%d", i, k), clipS(fmt.Sprintf("untouched: %+v | poisoned: %+v | %s", vp, vm, plain.Describe())))
					continue
				}
				c.Violate(i, "released-buffer-still-read/"+c20Field(vp, vm), fmt.Sprintf("request messages at the backend: %s; response messages at the client: %s\n"+"the same RPC, run alone twice: once with released pool buffers left as they are, once with every buffer overwritten the moment it is released. "+
					"The outcomes differ, so something was read from a buffer after its release.\nuntouched: %+v\npoisoned: %+v\n--- untouched:\n%s--- poisoned on release:\n%s", orNone(d1), orNone(d2), vp, vm, plain.Describe(), e.Describe()))
			}
		}
		if !e.Out.OK() {
			c.Count("w3-rpcs-failed")
		}
		if e.Panic != nil {
			c.Violate(i, "panic-on-error-path/"+panicSite(e.Stack), e.Describe())
		}
		c14Pool.mu.Lock()
		nv := len(c14Pool.violations)
		c14Pool.mu.Unlock()
		if nv > 0 {
			// attribute the automaton's report to the RPC that was running
			c14Pool.mu.Lock()
			for j := range c14Pool.violations {
				if !strings.Contains(c14Pool.violations[j], "--- while serving:") {
					c14Pool.violations[j] += "\n--- while serving:\n" + e.Describe()
				}
			}
			c14Pool.mu.Unlock()
		}
	}
}

func runC14(c *Ctx, i int, r *rand.Rand) {
	modeB := i%2 == 1
	p := c14Pool
	p.enabled.Store(modeB)
	p.useQuar.Store(modeB && i%4 == 3)
	p.mu.Lock()
	p.recordHist = modeB && c.Thorough() && i%4 == 1
	p.mu.Unlock()
	// ownership recorded in earlier rounds is stale (rounds in mode A do not track): start from nothing
	p.mu.Lock()
	p.live, p.codecLive = map[*bytes.Buffer]bool{}, map[any]bool{}
	keep := map[*bytes.Buffer]string{}
	for _, q := range p.quarantine {
		if st, ok := p.putStack[q]; ok {
			keep[q] = st
		}
	}
	p.putStack = keep
	p.mu.Unlock()
	if i%6 == 5 {
		// W3: error paths one RPC at a time with the ownership automaton on: deterministic detection of
		// double releases and of writes into a buffer after its release
		p.enabled.Store(true)
		c14W3(c, i, r)
	} else if i%3 == 2 {
		// duplex streams are cheap: several per round, each with its own fault and pairing
		for rep := 0; rep < 12; rep++ {
			c14W2(c, i, r, modeB)
		}
	} else {
		c14W1(c, i, r, modeB)
	}
	p.enabled.Store(false)
	p.mu.Lock()
	viol := p.violations
	p.violations = nil
	hist := p.history
	p.history = nil
	if !p.useQuar.Load() {
		// buffers handed to sync.Pool may be dropped by the GC at any time: forget ownership between rounds
	}
	p.mu.Unlock()
	for _, v := range viol {
		c.Violate(i, "pool-ownership/"+classify(v), v)
	}
	if len(hist) > 0 {
		model := porcupine.Model{
			Partition: func(ops []porcupine.Operation) [][]porcupine.Operation {
				by := map[int][]porcupine.Operation{}
				for _, op := range ops {
					by[op.Input.(poolEv).Buf] = append(by[op.Input.(poolEv).Buf], op)
				}
				var out [][]porcupine.Operation
				for _, v := range by {
					out = append(out, v)
				}
				return out
			},
			Init: func() any { return false },
			Step: func(st, in, _ any) (bool, any) {
				owned := st.(bool)
				if in.(poolEv).Get {
					return !owned, true
				}
				return owned, false
			},
		}
		res, _ := porcupine.CheckOperationsVerbose(model, hist, 60*time.Second)
		c.CountN("porcupine-operations", int64(len(hist)))
		switch res {
		case porcupine.Illegal:
			c.Violate(i, "pool-history-not-linearizable", fmt.Sprintf("the recorded Get/Put history of %d operations has no sequential explanation in which every buffer has one owner at a time", len(hist)))
		case porcupine.Unknown:
			c.Inconclusive("porcupine timed out on a pool history")
		default:
			c.Count("porcupine-histories-ok")
		}
	}
}

// ---- race log ------------------------------------------------------------------------------

func c14Finish(c *Ctx) {
	pts := snapshotPoints()
	c.SetExtra("hook_point_hits", pts)
	c.SetExtra("pool_gets_monitored", c14Pool.gets)
	c.SetExtra("pool_puts_monitored", c14Pool.puts)
	dir := os.Getenv("VERIF_DIR")
	if dir == "" {
		dir = "/verif"
	}
	logPath := filepath.Join(dir, "build", "run", fmt.Sprintf("C14-race.%d", os.Getpid()))
	data, err := os.ReadFile(logPath)
	if err != nil {
		if !raceEnabled {
			c.Inconclusive("not a race-detector build: the race monitor did not run")
		}
		c.SetExtra("race_reports", 0)
		return
	}
	blocks := strings.Split(string(data), "==================")
	total := 0
	pairs := map[string]int{}
	sample := map[string]string{}
	for _, b := range blocks {
		if !strings.Contains(b, "WARNING: DATA RACE") {
			continue
		}
		total++
		sig := raceSignature(b)
		pairs[sig]++
		if _, ok := sample[sig]; !ok {
			sample[sig] = b
		}
	}
	c.SetExtra("race_reports", total)
	c.SetExtra("race_reports_distinct", len(pairs))
	var sigs []string
	for s := range pairs {
		sigs = append(sigs, s)
	}
	sort.Strings(sigs)
	for _, s := range sigs {
		c.Violate(-1, "data-race/"+s, fmt.Sprintf("%d race reports with this pair of innermost vanguard frames; first report:\n%s", pairs[s], sample[s]))
	}
}

// raceSignature: the pair of innermost connectrpc.com/vanguard functions of the two stacks of a race report.
func raceSignature(block string) string {
	var fns []string
	var cur string
	inStack := false
	for _, line := range strings.Split(block, "\n") {
		t := strings.TrimSpace(line)
		switch {
		case strings.Contains(t, " by goroutine ") || strings.Contains(t, " by main goroutine"):
			if inStack {
				fns = append(fns, cur)
			}
			inStack, cur = true, "harness-or-runtime"
			if strings.HasPrefix(t, "Goroutine ") {
				inStack = false
			}
		case strings.HasPrefix(t, "Goroutine "):
			if inStack {
				fns = append(fns, cur)
			}
			inStack = false
		case inStack && strings.HasPrefix(t, "connectrpc.com/vanguard.") && cur == "harness-or-runtime":
			f := strings.TrimPrefix(t, "connectrpc.com/vanguard.")
			if i := strings.LastIndex(f, "("); i > 0 {
				f = f[:i]
			}
			cur = f
		}
	}
	if inStack {
		fns = append(fns, cur)
	}
	if len(fns) > 2 {
		fns = fns[:2]
	}
	sort.Strings(fns)
	return strings.Join(fns, "+")
}

var _ = proto.Equal
