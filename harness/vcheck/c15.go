package main

import (
	"google.golang.org/protobuf/reflect/protoreflect"
	"bytes"
	"fmt"
	"math/rand/v2"
	"reflect"
	"runtime"
	"sync"

	"connectrpc.com/vanguard"
)

func init() {
	register(&Property{
		ID:    "C15",
		Level: "exploration",
		Rule: "case i = one history: a service configuration, a freshly built Transcoder, H = 1..80 earlier requests drawn from the hostile corpora (C11 mutations and hostile backend scripts, truncated and corrupt-gzip bodies, messages failing inside the decompressor or inflating past the limit in both directions, " +
			"limit breaches, backend panics recovered like net/http does, huge then tiny messages around the 8 MiB pool cut-off), followed by a fixed probe set of 10 RPCs (all client forms, both codecs, gzip, several sizes). " +
			"The same probes run on Transcoders that served nothing before. GOMAXPROCS=1 and serial execution make sync.Pool reuse the rule; the pool hooks poison every released buffer (so a missing Reset shows up as poison in an output) " +
			"and record, per buffer and (de)compressor, which request used it last. oracle: canonical outcome of every probe (backend-observed request and client-observed response, decoded) identical with and without history; no poison bytes in any output. " +
			"non-vacuity minimum: probes must actually have received buffers and (de)compressors last used by failed requests. non-trivial = the history contains a failed request; distinct by (config, history length, failure kinds)",
		Assume: []string{"a backend panic is recovered by the harness the way net/http's server does"},
		Serial: true,
		N:      func(t string) int { return tierN(t, 200, 4000) },
		Setup:  c15Setup,
		Run:    runC15,
		Finish: func(c *Ctx) {
			c.SetExtra("pool_buffer_gets", c15Stats.gets)
			c.SetExtra("pool_buffer_reuses", c15Stats.reuses)
			c.SetExtra("probe_got_buffer_last_used_by_failed_request", c15Stats.reuseAfterFail)
			c.SetExtra("probe_got_codec_last_used_by_failed_request", c15Stats.codecAfterFail)
			c.CountN("probe-buffer-reuse-after-failure", c15Stats.reuseAfterFail)
			c.CountN("probe-codec-reuse-after-failure", c15Stats.codecAfterFail)
		},
		MinimaFor: func(t string) map[string]int {
			return map[string]int{"probe-buffer-reuse-after-failure": tierN(t, 120, 2400), "probe-codec-reuse-after-failure": tierN(t, 30, 600), "probes-compared": tierN(t, 1500, 30000)}
		},
	})
}

const poisonByte = 0xDB

type c15Tracker struct {
	mu             sync.Mutex
	lastFailed     map[*bytes.Buffer]bool
	codecFailed    map[any]bool
	gets, reuses   int64
	reuseAfterFail int64
	codecAfterFail int64
	curFailed      *bool // set by the driver: will be flipped to true when the current request turns out to have failed
	inProbe        bool
	touched        []*bytes.Buffer
	touchedCodecs  []any
}

var c15Stats = &c15Tracker{lastFailed: map[*bytes.Buffer]bool{}, codecFailed: map[any]bool{}}

func c15Setup(c *Ctx) {
	runtime.GOMAXPROCS(1)
	t := c15Stats
	installCountingHooks(&vanguard.VerifHooks{
		PoolGet: func(b *bytes.Buffer) {
			t.mu.Lock()
			t.gets++
			if failed, seen := t.lastFailed[b]; seen {
				t.reuses++
				if failed && t.inProbe {
					t.reuseAfterFail++
				}
			}
			t.touched = append(t.touched, b)
			t.mu.Unlock()
		},
		PoolPut: func(b *bytes.Buffer) bool {
			// poison the whole capacity: contents of a released buffer must never matter
			b.Reset()
			raw := b.Bytes()
			raw = raw[:cap(raw)]
			for i := range raw {
				raw[i] = poisonByte
			}
			t.mu.Lock()
			if _, ok := t.lastFailed[b]; !ok {
				t.lastFailed[b] = false
			}
			t.mu.Unlock()
			return false
		},
		CodecGet: func(pool, kind string, obj any) {
			t.mu.Lock()
			if failed, seen := t.codecFailed[obj]; seen && failed && t.inProbe {
				t.codecAfterFail++
			}
			t.touchedCodecs = append(t.touchedCodecs, obj)
			t.mu.Unlock()
		},
		CodecPut: func(pool, kind string, obj any) {
			t.mu.Lock()
			if _, ok := t.codecFailed[obj]; !ok {
				t.codecFailed[obj] = false
			}
			t.mu.Unlock()
		},
	})
}

// endRequest attributes everything touched since the last call to a request that failed or not.
func (t *c15Tracker) endRequest(failed bool) {
	t.mu.Lock()
	for _, b := range t.touched {
		t.lastFailed[b] = failed
	}
	for _, o := range t.touchedCodecs {
		t.codecFailed[o] = failed
	}
	t.touched, t.touchedCodecs = t.touched[:0], t.touchedCodecs[:0]
	if len(t.lastFailed) > 200000 {
		t.lastFailed = map[*bytes.Buffer]bool{}
		t.codecFailed = map[any]bool{}
	}
	t.mu.Unlock()
}

type c15Probe struct {
	s   *Scenario
	raw []byte
}

func c15Probes(r *rand.Rand, cfg *SvcConfig) []*c15Probe {
	var out []*c15Probe
	for k := 0; k < 10; k++ {
		form := ClientForm(k % int(numForms))
		s := genScenario(r, ScenOpts{Cfg: cfg, ForceForm: &form, OnlySuccess: k%3 != 0}, fmt.Sprintf("probe%d", k))
		if s == nil {
			continue
		}
		// deterministic bytes: map-free messages, request built once
		gopts := genOpts{noMaps: true, density: pick(r, []int{2, 10, 30}), maxStr: pick(r, []int{0, 300, 20000})}
		if s.Req.Form != FREST && s.Target != "rest" {
			for j := range s.Req.Msgs {
				s.Req.Msgs[j] = genMessage(r, s.Req.M.In(), gopts)
			}
		}
		for j := range s.Script.Msgs {
			s.Script.Msgs[j] = genMessage(r, s.Req.M.Out(), gopts)
		}
		if k%2 == 0 {
			s.Req.Comp, s.Req.Accept, s.Script.Comp = "gzip", []string{"gzip"}, "gzip"
		}
		s.Req.FrameComp = repeatBool(true, len(s.Req.Msgs))
		s.Script.FrameComp = repeatBool(true, len(s.Script.Msgs))
		built, err := s.Req.Build(r)
		if err != nil {
			continue
		}
		out = append(out, &c15Probe{s: s, raw: built.Raw})
	}
	return out
}

// c15PrivateProbes: RPCs of the main service whose response carries a google.protobuf.Any of a type only that service's
// resolver knows (google.api.HttpBody.extensions), asked for in JSON and in proto.
func c15PrivateProbes(r *rand.Rand, cfg *SvcConfig) []*c15Probe {
	var out []*c15Probe
	m := kitchenInfo["RawOut"]
	for _, codec := range []string{"json", "proto"} {
		for _, form := range []ClientForm{FConnectUnary, FGRPC} {
			resp := newMsg(m.Out())
			rm := resp.ProtoReflect()
			fs := rm.Descriptor().Fields()
			rm.Set(fs.ByName("content_type"), protoreflect.ValueOfString("text/plain"))
			rm.Set(fs.ByName("data"), protoreflect.ValueOfBytes([]byte("private")))
			rm.Mutable(fs.ByName("extensions")).List().Append(protoreflect.ValueOfMessage(privateAny("note-" + codec).ProtoReflect()))
			creq := &ClientReq{Form: form, M: m, Codec: codec, HTTP2: true, FrameComp: []bool{false},
				Msgs: []protoMsg{genMessage(r, m.In(), genOpts{noMaps: true, density: 2})}}
			s := &Scenario{Cfg: cfg, Req: creq, Script: &BackendScript{Msgs: []protoMsg{resp}, FrameComp: []bool{false}}, Target: resolveTarget(cfg, form.Protocol())}
			built, err := creq.Build(r)
			if err != nil {
				continue
			}
			out = append(out, &c15Probe{s: s, raw: built.Raw})
		}
	}
	return out
}

func c15RunProbe(p *c15Probe, t *vanguard.Transcoder, r *rand.Rand) (*Exec, error) {
	creq := *p.s.Req
	creq.UseRawBody, creq.RawBody = true, p.raw
	script := *p.s.Script
	return runRPC(p.s.Cfg, &creq, &script, r, &execOpts{Transcoder: t})
}

func hasPoison(b []byte) bool {
	run := 0
	for _, x := range b {
		if x == poisonByte {
			run++
			if run >= 24 {
				return true
			}
		} else {
			run = 0
		}
	}
	return false
}

func runC15(c *Ctx, i int, r *rand.Rand) {
	kitchen()
	cfg := genConfig(r)
	cfg.Limit = pick(r, []uint32{16 << 10, 64 << 10, 1 << 20, 12 << 20})
	if chance(r, 35) && (len(cfg.Protocols) > 1 || cfg.Protocols[0] != "rest") {
		cfg.TwoResolvers = true
		c.Count("two-services-with-different-resolvers")
	}
	tUsed, err := buildTranscoder(cfg, true)
	if err != nil {
		return
	}
	// every history has a transcoder, and so a pool, of its own: what the tracker knows about the previous history's
	// buffers and codecs is of no use any more, and holding on to it keeps every buffer ever pooled alive
	c15Stats.mu.Lock()
	c15Stats.lastFailed, c15Stats.codecFailed = map[*bytes.Buffer]bool{}, map[any]bool{}
	c15Stats.touched, c15Stats.touchedCodecs = nil, nil
	c15Stats.mu.Unlock()
	probes := c15Probes(r, cfg)
	if cfg.TwoResolvers {
		probes = append(probes, c15PrivateProbes(r, cfg)...)
	}
	st := c15Stats
	// reference: each probe on a transcoder that has served nothing
	var ref []*Exec
	for _, p := range probes {
		tf, err := buildTranscoder(cfg, true)
		if err != nil {
			return
		}
		e, err := c15RunProbe(p, tf, r)
		if err != nil {
			ref = append(ref, nil)
			continue
		}
		st.endRequest(false)
		ref = append(ref, e)
	}
	// history on the used transcoder
	n := 1 + r.IntN(80)
	failures := map[string]int{}
	for k := 0; k < n; k++ {
		var e *Exec
		kind := ""
		sel := r.IntN(9)
		if cfg.TwoResolvers && (k < 2 || chance(r, 20)) {
			sel = 9 // early traffic to the other service: whatever the transcoder initialises lazily is initialised by it
		}
		switch sel {
		case 9:
			selServices()
			m := oneMs[0]
			creq := &ClientReq{Form: pick(r, []ClientForm{FConnectUnary, FGRPC, FGRPCWeb}), M: m, Codec: pick(r, []string{"json", "json", "proto"}), HTTP2: true,
				Msgs: []protoMsg{genMessage(r, m.In(), genOpts{noMaps: true, density: 3})}, FrameComp: []bool{false}}
			script := &BackendScript{Msgs: []protoMsg{genMessage(r, m.Out(), genOpts{noMaps: true, density: 3})}}
			e, _ = runRPC(cfg, creq, script, r, &execOpts{Transcoder: tUsed})
			kind = "other-service"
		case 8:
			s := genScenario(r, ScenOpts{Cfg: cfg}, "h")
			if s == nil {
				continue
			}
			s.Script.BadEnd = pick(r, []string{"garbage", "empty", "corrupt"})
			s.Script.Comp, s.Script.CompressEnd = pick(r, []string{"", "gzip"}), chance(r, 50)
			e, _ = runRPC(cfg, s.Req, s.Script, r, &execOpts{Transcoder: tUsed})
			kind = "bad-end-of-stream"
		case 6:
			// a message that fails inside the decompressor or inflates past the limit (request side)
			s := genScenario(r, ScenOpts{Cfg: cfg}, "h")
			if s == nil {
				continue
			}
			raw := hostileCompressedRequest(r, s, pick(r, []string{"corrupt", "bomb"}), int(cfg.Limit))
			if raw == nil {
				continue
			}
			s.Req.UseRawBody, s.Req.RawBody = true, raw
			e, _ = runRPC(cfg, s.Req, s.Script, r, &execOpts{Transcoder: tUsed})
			kind = "decompress-fault"
		case 7:
			s := genScenario(r, ScenOpts{Cfg: cfg}, "h")
			if s == nil {
				continue
			}
			hostileCompressedResponse(r, s.Script, pick(r, []string{"corrupt", "bomb"}), int(cfg.Limit))
			e, _ = runRPC(cfg, s.Req, s.Script, r, &execOpts{Transcoder: tUsed})
			kind = "decompress-fault-response"
		case 0, 1, 2:
			cc := genC11(r)
			if cc == nil {
				continue
			}
			cc.s.Cfg = cfg
			e, _ = runRPC(cfg, cc.s.Req, cc.s.Script, r, &execOpts{Transcoder: tUsed, Chunks: chunkPlan(r), EndErr: cc.endErr})
			kind = "hostile"
		case 3:
			// corrupt gzip / truncated
			s := genScenario(r, ScenOpts{Cfg: cfg}, "h")
			if s == nil {
				continue
			}
			s.Req.Comp = "gzip"
			s.Req.FrameComp = repeatBool(true, len(s.Req.Msgs))
			built, err := s.Req.Build(r)
			if err != nil {
				continue
			}
			s.Req.UseRawBody, s.Req.RawBody = true, mutateBody(r, built.Raw)
			e, _ = runRPC(cfg, s.Req, s.Script, r, &execOpts{Transcoder: tUsed})
			kind = "corrupt"
		case 4:
			// huge then tiny: around the pool's 8 MiB recycling cut-off and the limit
			form := FGRPC
			s := genScenario(r, ScenOpts{Cfg: cfg, ForceForm: &form, ForceMethod: "Unary"}, "h")
			if s == nil {
				continue
			}
			s.Req.Msgs = []protoMsg{sizedMessage(s.Req.M.In(), pick(r, []int{int(cfg.Limit) - 100, int(cfg.Limit) + 1, 9 << 20, 7 << 20, 3}), chance(r, 50), r)}
			e, _ = runRPC(cfg, s.Req, s.Script, r, &execOpts{Transcoder: tUsed})
			kind = "size"
		case 5:
			s := genScenario(r, ScenOpts{Cfg: cfg}, "h")
			if s == nil {
				continue
			}
			s.Script.Panic = fmt.Sprintf("backend panic in history %d", k)
			e, _ = runRPC(cfg, s.Req, s.Script, r, &execOpts{Transcoder: tUsed})
			kind = "backend-panic"
		}
		if e == nil {
			continue
		}
		failed := e.Panic != nil || !e.Out.OK() || e.Backend.Script.Panic != nil
		if e.Panic != nil {
			c.Violate(i, "transcoder-panic-in-history/"+panicSite(e.Stack), e.Describe())
		}
		if failed {
			failures[kind]++
		}
		st.endRequest(failed)
	}
	if len(failures) > 0 {
		c.Nontrivial(fmt.Sprintf("%s|%d|%v", cfg.Key(), n, failures))
	}
	if i < 2 {
		c.Sample(map[string]any{"case": i, "config": cfg.Key(), "history_length": n, "failed_requests_by_kind": failures, "probes": len(probes)})
	}
	// probes after the history
	for k, p := range probes {
		if ref[k] == nil {
			continue
		}
		st.mu.Lock()
		st.inProbe = true
		st.mu.Unlock()
		e, err := c15RunProbe(p, tUsed, r)
		st.mu.Lock()
		st.inProbe = false
		st.mu.Unlock()
		if err != nil {
			continue
		}
		st.endRequest(false)
		c.Eval()
		c.Count("probes-compared")
		detail := func() string {
			return fmt.Sprintf("probe %d after a history of %d requests (failures %v)\n--- on a fresh transcoder:\n%s--- after the history:\n%s", k, n, failures, ref[k].Describe(), e.Describe())
		}
		if (e.Panic != nil) != (ref[k].Panic != nil) {
			c.Violate(i, "probe-panics-only-after-history", detail())
			continue
		}
		if (hasPoison(e.Rec.Body.Bytes()) && !hasPoison(ref[k].Rec.Body.Bytes())) || (hasPoison(e.Backend.Obs.Body) && !hasPoison(ref[k].Backend.Obs.Body)) {
			c.Violate(i, "released-buffer-contents-in-output", detail())
			continue
		}
		vf, vu := viewOf(ref[k]), viewOf(e)
		if !reflect.DeepEqual(vf, vu) {
			c.Violate(i, "probe-outcome-depends-on-history/"+c20Field(vf, vu), fmt.Sprintf("fresh: %+v\nused:  %+v\n%s", vf, vu, detail()))
			continue
		}
		if !msgsEqual(ref[k].Backend.Obs.Msgs, e.Backend.Obs.Msgs) || !msgsEqual(ref[k].Out.Msgs, e.Out.Msgs) {
			c.Violate(i, "probe-messages-depend-on-history", detail())
		}
	}
}
