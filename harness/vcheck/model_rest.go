package main

// Reference model of google.api.http path templates and bindings, written from
// the grammar in google/api/http.proto, independent of vanguard's parser/trie.

import (
	"errors"
	"fmt"
	"strings"

	"google.golang.org/genproto/googleapis/api/annotations"
	"google.golang.org/protobuf/reflect/protoreflect"
)

const (
	segLit = iota
	segStar
	segDStar
)

type Seg struct {
	Kind int
	Lit  string // canonical literal text (as written in the template)
}

type TVar struct {
	FieldPath  string
	Start, End int // segment index range [Start,End); End == -1 when the variable contains "**"
	Fields     []protoreflect.FieldDescriptor
}

type Binding struct {
	Method     protoreflect.MethodDescriptor
	HTTPMethod string
	Template   string
	Segs       []Seg
	Verb       string
	Vars       []TVar
	Body       string
	RespBody   string
}

type tparser struct {
	s        string
	pos      int
	segs     []Seg
	vars     []TVar
	sawDStar bool
}

func isLitChar(c byte) bool {
	return c == '-' || c == '_' || c == '.' || c == '~' || c == '%' ||
		(c >= '0' && c <= '9') || (c >= 'a' && c <= 'z') || (c >= 'A' && c <= 'Z')
}
func isIdentStartC(c byte) bool {
	return c == '_' || (c >= 'a' && c <= 'z') || (c >= 'A' && c <= 'Z')
}
func isIdentC(c byte) bool { return isIdentStartC(c) || (c >= '0' && c <= '9') }

func (p *tparser) peek() byte {
	if p.pos >= len(p.s) {
		return 0
	}
	return p.s[p.pos]
}

func (p *tparser) literal() (string, error) {
	st := p.pos
	for p.pos < len(p.s) && isLitChar(p.s[p.pos]) {
		p.pos++
	}
	if p.pos == st {
		return "", fmt.Errorf("expected literal at %d", st)
	}
	return p.s[st:p.pos], nil
}

func (p *tparser) segments(inVar bool) error {
	for {
		if p.sawDStar {
			return errors.New("** must be last")
		}
		switch c := p.peek(); {
		case c == '*':
			p.pos++
			if p.peek() == '*' {
				p.pos++
				p.segs = append(p.segs, Seg{Kind: segDStar})
				p.sawDStar = true
			} else {
				p.segs = append(p.segs, Seg{Kind: segStar})
			}
		case c == '{':
			if inVar {
				return errors.New("nested variable")
			}
			p.pos++
			if err := p.variable(); err != nil {
				return err
			}
		default:
			lit, err := p.literal()
			if err != nil {
				return err
			}
			p.segs = append(p.segs, Seg{Kind: segLit, Lit: lit})
		}
		if p.peek() != '/' {
			return nil
		}
		p.pos++
	}
}

func (p *tparser) variable() error {
	st := p.pos
	for {
		if !isIdentStartC(p.peek()) {
			return fmt.Errorf("expected identifier at %d", p.pos)
		}
		for isIdentC(p.peek()) {
			p.pos++
		}
		if p.peek() != '.' {
			break
		}
		p.pos++
	}
	v := TVar{FieldPath: p.s[st:p.pos], Start: len(p.segs)}
	switch p.peek() {
	case '}':
		p.pos++
		p.segs = append(p.segs, Seg{Kind: segStar})
	case '=':
		p.pos++
		if err := p.segments(true); err != nil {
			return err
		}
		if p.peek() != '}' {
			return fmt.Errorf("expected } at %d", p.pos)
		}
		p.pos++
	default:
		return fmt.Errorf("expected } or = at %d", p.pos)
	}
	v.End = len(p.segs)
	if p.sawDStar {
		v.End = -1
	}
	for _, o := range p.vars {
		if o.FieldPath == v.FieldPath {
			return errors.New("duplicate variable")
		}
	}
	p.vars = append(p.vars, v)
	return nil
}

// parseTemplateRef parses a path template under the http.proto grammar.
func parseTemplateRef(t string) (segs []Seg, verb string, vars []TVar, err error) {
	p := &tparser{s: t}
	if p.peek() != '/' {
		return nil, "", nil, errors.New("template must start with /")
	}
	p.pos++
	if err := p.segments(false); err != nil {
		return nil, "", nil, err
	}
	if p.peek() == ':' {
		p.pos++
		verb, err = p.literal()
		if err != nil {
			return nil, "", nil, err
		}
	}
	if p.pos != len(p.s) {
		return nil, "", nil, fmt.Errorf("unexpected %q at %d", p.s[p.pos], p.pos)
	}
	return p.segs, verb, p.vars, nil
}

func rulePattern(rule *annotations.HttpRule) (method, tmpl string) {
	switch pt := rule.GetPattern().(type) {
	case *annotations.HttpRule_Get:
		return "GET", pt.Get
	case *annotations.HttpRule_Put:
		return "PUT", pt.Put
	case *annotations.HttpRule_Post:
		return "POST", pt.Post
	case *annotations.HttpRule_Delete:
		return "DELETE", pt.Delete
	case *annotations.HttpRule_Patch:
		return "PATCH", pt.Patch
	case *annotations.HttpRule_Custom:
		return pt.Custom.GetKind(), pt.Custom.GetPath()
	}
	return "", ""
}

func resolveFieldPathRef(md protoreflect.MessageDescriptor, path string) ([]protoreflect.FieldDescriptor, error) {
	var out []protoreflect.FieldDescriptor
	parts := strings.Split(path, ".")
	for i, part := range parts {
		if md == nil {
			return nil, fmt.Errorf("%q: not a message", path)
		}
		fd := md.Fields().ByName(protoreflect.Name(part))
		if fd == nil {
			return nil, fmt.Errorf("%q: no field %q", path, part)
		}
		out = append(out, fd)
		if i < len(parts)-1 {
			if fd.IsList() || fd.IsMap() || fd.Message() == nil {
				return nil, fmt.Errorf("%q: %q is not a singular message", path, part)
			}
		}
		md = fd.Message()
	}
	return out, nil
}

func bindingFromRule(md protoreflect.MethodDescriptor, rule *annotations.HttpRule) (*Binding, error) {
	hm, tmpl := rulePattern(rule)
	if hm == "" || tmpl == "" {
		return nil, errors.New("blank method or template")
	}
	segs, verb, vars, err := parseTemplateRef(tmpl)
	if err != nil {
		return nil, err
	}
	for i := range vars {
		f, err := resolveFieldPathRef(md.Input(), vars[i].FieldPath)
		if err != nil {
			return nil, err
		}
		vars[i].Fields = f
	}
	return &Binding{Method: md, HTTPMethod: hm, Template: tmpl, Segs: segs, Verb: verb, Vars: vars,
		Body: rule.GetBody(), RespBody: rule.GetResponseBody()}, nil
}

func bindingsFromRule(md protoreflect.MethodDescriptor, rule *annotations.HttpRule) []*Binding {
	var out []*Binding
	b, err := bindingFromRule(md, rule)
	if err != nil {
		panic(fmt.Sprintf("schema rule for %s: %v", md.FullName(), err))
	}
	out = append(out, b)
	for _, ab := range rule.GetAdditionalBindings() {
		b, err := bindingFromRule(md, ab)
		if err != nil {
			panic(fmt.Sprintf("schema rule for %s: %v", md.FullName(), err))
		}
		out = append(out, b)
	}
	return out
}
