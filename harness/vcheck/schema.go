package main

import (
	"fmt"
	"sync"

	"google.golang.org/genproto/googleapis/api/annotations"
	_ "google.golang.org/genproto/googleapis/api/httpbody"
	"google.golang.org/protobuf/proto"
	"google.golang.org/protobuf/reflect/protodesc"
	"google.golang.org/protobuf/reflect/protoreflect"
	"google.golang.org/protobuf/reflect/protoregistry"
	"google.golang.org/protobuf/types/descriptorpb"
	_ "google.golang.org/protobuf/types/known/emptypb"

	testv1 "connectrpc.com/vanguard/internal/gen/vanguard/test/v1"
)

var _ = testv1.File_vanguard_test_v1_test_proto

const (
	stUnary = iota
	stClient
	stServer
	stBidi
)

// MethodInfo describes one method of a schema the harness drives.
type MethodInfo struct {
	Name   string
	Desc   protoreflect.MethodDescriptor
	Path   string
	Stream int
	Idem   descriptorpb.MethodOptions_IdempotencyLevel
	Rules  []*Binding // reference-model view of the google.api.http bindings (primary first)
}

func (m *MethodInfo) In() protoreflect.MessageDescriptor  { return m.Desc.Input() }
func (m *MethodInfo) Out() protoreflect.MessageDescriptor { return m.Desc.Output() }

type kitchenMethod struct {
	name     string
	in, out  string
	cs, ss   bool
	idem     descriptorpb.MethodOptions_IdempotencyLevel
	rule     *annotations.HttpRule
}

const (
	tAll   = ".vanguard.test.v1.AllTypes"
	tParam = ".vanguard.test.v1.ParameterValues"
	tBody  = ".google.api.HttpBody"
	tEmpty = ".google.protobuf.Empty"
)

func ruleGet(p string) *annotations.HttpRule {
	return &annotations.HttpRule{Pattern: &annotations.HttpRule_Get{Get: p}}
}
func rulePost(p, body string) *annotations.HttpRule {
	return &annotations.HttpRule{Pattern: &annotations.HttpRule_Post{Post: p}, Body: body}
}
func rulePut(p, body string) *annotations.HttpRule {
	return &annotations.HttpRule{Pattern: &annotations.HttpRule_Put{Put: p}, Body: body}
}
func rulePatch(p, body string) *annotations.HttpRule {
	return &annotations.HttpRule{Pattern: &annotations.HttpRule_Patch{Patch: p}, Body: body}
}
func ruleDelete(p string) *annotations.HttpRule {
	return &annotations.HttpRule{Pattern: &annotations.HttpRule_Delete{Delete: p}}
}
func ruleCustom(kind, p, body string) *annotations.HttpRule {
	return &annotations.HttpRule{Pattern: &annotations.HttpRule_Custom{Custom: &annotations.CustomHttpPattern{Kind: kind, Path: p}}, Body: body}
}
func withResp(r *annotations.HttpRule, rb string) *annotations.HttpRule {
	r.ResponseBody = rb
	return r
}
func withExtra(r *annotations.HttpRule, extra ...*annotations.HttpRule) *annotations.HttpRule {
	r.AdditionalBindings = extra
	return r
}

const (
	idemUnknown = descriptorpb.MethodOptions_IDEMPOTENCY_UNKNOWN
	idemNSE     = descriptorpb.MethodOptions_NO_SIDE_EFFECTS
	idemIdem    = descriptorpb.MethodOptions_IDEMPOTENT
)

var kitchenMethods = []kitchenMethod{
	{name: "Unary", in: tAll, out: tAll},
	{name: "UnaryNSE", in: tAll, out: tAll, idem: idemNSE},
	{name: "UnaryIdem", in: tAll, out: tAll, idem: idemIdem},
	{name: "ClientStream", in: tAll, out: tAll, cs: true},
	{name: "ServerStream", in: tAll, out: tAll, ss: true},
	{name: "Bidi", in: tAll, out: tAll, cs: true, ss: true},
	// REST-bound methods over ParameterValues (every parameter type).
	{name: "GetParams", in: tParam, out: tParam, idem: idemNSE, rule: ruleGet("/v1/params/{string_value}/{int32_value}")},
	{name: "PostParams", in: tParam, out: tParam, rule: rulePost("/v1/params/{string_value}", "*")},
	{name: "NestedBody", in: tParam, out: tParam, rule: withResp(rulePost("/v1/pf/{string_value}", "nested"), "nested")},
	{name: "Multi", in: tParam, out: tParam, idem: idemNSE, rule: ruleGet("/v1/multi/{string_value=a/*/b/**}")},
	{name: "NestedVar", in: tParam, out: tParam, rule: ruleGet("/v1/nv/{nested.double_value}/x/{recursive.string_value}")},
	{name: "Verb", in: tParam, out: tParam, rule: withExtra(rulePost("/v1/pv/{string_value}:act", "recursive"), ruleGet("/v1/pv/{string_value}:peek"))},
	{name: "ListBody", in: tParam, out: tParam, rule: withResp(rulePut("/v1/sb/{string_value}", "double_list"), "double_list")},
	{name: "Custom", in: tParam, out: tParam, rule: ruleCustom("*", "/v1/any/{string_value}", "")},
	{name: "EnumVar", in: tParam, out: tParam, rule: ruleDelete("/v1/en/{enum_value}/{bool_value}")},
	{name: "ScalarBody", in: tParam, out: tParam, rule: withResp(rulePatch("/v1/scalar/{string_value}", "int64_value"), "int64_value")},
	{name: "TwoSeg", in: tParam, out: tParam, rule: ruleGet("/v1/two/{string_value=x/*}/mid/{recursive.string_value=*/y}")},
	{name: "NumVars", in: tParam, out: tParam, rule: ruleGet("/v1/num/{uint64_value}/{sint32_value}/{double_value}/{bytes_value}")},
	{name: "RawOut", in: tParam, out: tBody, rule: ruleGet("/v1/raw/{string_value}")},
	{name: "RawIn", in: tBody, out: tParam, rule: rulePost("/v1/rawin", "*")},
	{name: "RawStreamOut", in: tParam, out: tBody, ss: true, rule: ruleGet("/v1/rawstream/{string_value}")},
	{name: "RawStreamIn", in: tBody, out: tParam, cs: true, rule: rulePost("/v1/rawstreamin", "*")},
	// a REST GET binding on a method that is idempotent but not side-effect-free: GET toward a Connect backend is not allowed
	{name: "GetIdem", in: tParam, out: tParam, idem: idemIdem, rule: ruleGet("/v1/idem/{string_value}")},
	// two bindings of one method that differ in whether the body is a google.api.HttpBody (raw bytes) or the JSON of one of
	// its fields: anything remembered per method instead of per binding shows up as history dependence
	{name: "RawAlt", in: tParam, out: tBody, rule: withExtra(ruleGet("/v1/rawalt/{string_value}"), withResp(ruleGet("/v1/rawaltdata/{string_value}"), "data"))},
	{name: "RawInAlt", in: tBody, out: tParam, rule: withExtra(rulePost("/v1/rawinalt", "*"), rulePost("/v1/rawinaltdata", "data"))},
}

const kitchenService = "verif.v1.Kitchen"

var (
	kitchenOnce sync.Once
	kitchenSvc  protoreflect.ServiceDescriptor
	kitchenInfo map[string]*MethodInfo
	kitchenList []*MethodInfo
)

func buildServiceFile(fileName, pkg, svc string, methods []kitchenMethod) protoreflect.FileDescriptor {
	fdp := &descriptorpb.FileDescriptorProto{
		Name:    proto.String(fileName),
		Package: proto.String(pkg),
		Syntax:  proto.String("proto3"),
		Dependency: []string{
			"vanguard/test/v1/test.proto",
			"google/api/annotations.proto",
			"google/api/httpbody.proto",
			"google/protobuf/empty.proto",
		},
	}
	sd := &descriptorpb.ServiceDescriptorProto{Name: proto.String(svc)}
	for _, km := range methods {
		md := &descriptorpb.MethodDescriptorProto{
			Name:       proto.String(km.name),
			InputType:  proto.String(km.in),
			OutputType: proto.String(km.out),
		}
		if km.cs {
			md.ClientStreaming = proto.Bool(true)
		}
		if km.ss {
			md.ServerStreaming = proto.Bool(true)
		}
		opts := &descriptorpb.MethodOptions{}
		if km.idem != idemUnknown {
			opts.IdempotencyLevel = km.idem.Enum()
		}
		if km.rule != nil {
			proto.SetExtension(opts, annotations.E_Http, km.rule)
		}
		md.Options = opts
		sd.Method = append(sd.Method, md)
	}
	fdp.Service = []*descriptorpb.ServiceDescriptorProto{sd}
	fd, err := protodesc.NewFile(fdp, protoregistry.GlobalFiles)
	if err != nil {
		panic(fmt.Sprintf("schema %s: %v", fileName, err))
	}
	return fd
}

func methodInfos(sd protoreflect.ServiceDescriptor) (map[string]*MethodInfo, []*MethodInfo) {
	infos := map[string]*MethodInfo{}
	var list []*MethodInfo
	ms := sd.Methods()
	for i := 0; i < ms.Len(); i++ {
		md := ms.Get(i)
		mi := &MethodInfo{Name: string(md.Name()), Desc: md, Path: "/" + string(sd.FullName()) + "/" + string(md.Name())}
		switch {
		case md.IsStreamingClient() && md.IsStreamingServer():
			mi.Stream = stBidi
		case md.IsStreamingClient():
			mi.Stream = stClient
		case md.IsStreamingServer():
			mi.Stream = stServer
		}
		if mo, ok := md.Options().(*descriptorpb.MethodOptions); ok && mo != nil {
			mi.Idem = mo.GetIdempotencyLevel()
			if proto.HasExtension(mo, annotations.E_Http) {
				rule, _ := proto.GetExtension(mo, annotations.E_Http).(*annotations.HttpRule)
				mi.Rules = bindingsFromRule(md, rule)
			}
		}
		infos[mi.Name] = mi
		list = append(list, mi)
	}
	return infos, list
}

func kitchen() (protoreflect.ServiceDescriptor, map[string]*MethodInfo) {
	kitchenOnce.Do(func() {
		fd := buildServiceFile("verif/v1/kitchen.proto", "verif.v1", "Kitchen", kitchenMethods)
		kitchenSvc = fd.Services().Get(0)
		kitchenInfo, kitchenList = methodInfos(kitchenSvc)
	})
	return kitchenSvc, kitchenInfo
}

func kitchenMethodsByStream(stream int, restOnly bool) []*MethodInfo {
	kitchen()
	var out []*MethodInfo
	for _, m := range kitchenList {
		if m.Stream == stream && (!restOnly || len(m.Rules) > 0) {
			out = append(out, m)
		}
	}
	return out
}

// newMsg returns a new generated (or dynamic, if unknown) message for md.
func newMsg(md protoreflect.MessageDescriptor) proto.Message {
	mt, err := protoregistry.GlobalTypes.FindMessageByName(md.FullName())
	if err != nil {
		panic("no Go type for " + string(md.FullName()))
	}
	return mt.New().Interface()
}
