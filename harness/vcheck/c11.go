package main

import (
	"encoding/binary"
	"errors"
	"fmt"
	"io"
	"math/rand/v2"
	"net/http"
	"os"
	"path/filepath"
	"strings"
	"sync"
)

func init() {
	register(&Property{
		ID:    "C11",
		Level: "fault_enumeration",
		Rule: "hostile, structure-aware inputs: a valid scenario (as in C01) is mutated by 1..4 operators drawn from: HTTP method (incl. unknown ones), path and query mutations (escapes, %00, '//', ':' suffixes, " +
			"very long, unicode), header mutations (duplicate/conflicting Content-Type, Content-Length, protocol version, timeouts at 2^31/2^63 boundaries, unknown encodings, header floods), " +
			"body mutations (byte flips, truncation, envelope lengths up to 0xFFFFFFFF, random bytes, body read errors), HTTP version, missing Flusher; and the backend follows a random script " +
			"(any status 0..1000, arbitrary headers incl. huge numeric grpc-status, grpc-message values assembled from valid, truncated and non-hex escape fragments (in the head or in real trailers) and duplicate Content-Length, messages that fail inside the decompressor or inflate past the limit, arbitrary body bytes and write pattern, declared length smaller/larger than written, early return, " +
			"writes after completion, WriteHeader twice, panic). monitors: recover() around ServeHTTP (any panic other than the backend's own scripted one), journal-before-execute for process-fatal errors, " +
			"wall-clock watchdog (stall = inconclusive/violation after isolated re-run), recorder assertions (status code range, one head, Content-Length = bytes written, no body on 204/304, no I/O after return). " +
			"non-trivial = the request is not a valid request of any protocol or the backend script violates its protocol; distinct by (mutation operators, script flavour, outcome class)",
		Assume: []string{"pass-through responses are written by the backend straight to the server's ResponseWriter; framing faults there are the backend's and are not charged to the transcoder"},
		N:      func(t string) int { return tierN(t, 60000, 1200000) },
		Setup:  c11Setup,
		Run:    runC11,
		MinimaFor: func(t string) map[string]int {
			return map[string]int{"dispatched": tierN(t, 15000, 300000), "rejected": tierN(t, 8000, 160000), "backend-hostile": tierN(t, 8000, 160000)}
		},
	})
}

var (
	c11Journal   *os.File
	c11JournalMu sync.Mutex
)

func c11Setup(c *Ctx) {
	dir := os.Getenv("VERIF_DIR")
	if dir == "" {
		dir = "/verif"
	}
	p := filepath.Join(dir, "build", "run", "C11.journal")
	_ = os.MkdirAll(filepath.Dir(p), 0o755)
	f, err := os.Create(p)
	if err == nil {
		c11Journal = f
		fmt.Fprintf(f, "seed=%d tier=%s\n", c.Seed, c.Tier)
	}
}

// journal records the case index before it runs, so that a process-fatal failure leaves its input behind.
func c11Log(i int) {
	if c11Journal == nil {
		return
	}
	var b [12]byte
	s := fmt.Appendf(b[:0], "%d\n", i)
	c11JournalMu.Lock()
	_, _ = c11Journal.Write(s)
	c11JournalMu.Unlock()
}

var hostileMethods = []string{"GET", "POST", "PUT", "PATCH", "DELETE", "HEAD", "OPTIONS", "TRACE", "CONNECT", "LOCK", "get", "PoSt", "M-SEARCH", "*"}

var hostilePathBits = []string{"%00", "%", "%zz", "%2F", "%252F", "//", "/", ":", "::", ":verb", "/:", "%3A", "*", "**", "{x}", "..", "/../", "?", "#", "é", "日本", " ", "+",
	"\\", "%C0%AF", "%FF", strings.Repeat("a", 300), strings.Repeat("/a", 200)}

var hostileTimeouts = []string{"", "0", "-1", "1", "2147483647", "2147483648", "4294967296", "9223372036854775807", "9223372036854775808", "99999999999999999999", "1e9", "NaN", "Inf", "-Inf",
	"0x10", " 5", "5 ", "5S", "99999999H", "100000000S", "0n", "18446744073709551615n", "1.5", "1e400", "1e-400", ".", "+1", "١٢٣"}

func mutatePath(r *rand.Rand, p string) string {
	switch r.IntN(7) {
	case 0:
		pos := r.IntN(len(p) + 1)
		return p[:pos] + pick(r, hostilePathBits) + p[pos:]
	case 1:
		return p + pick(r, hostilePathBits)
	case 2:
		return pick(r, []string{"/", "", "//", "/verif.v1.Kitchen/", "/verif.v1.Kitchen", "/v1", "/v1/", "/.", "/*"})
	case 3:
		segs := strings.Split(p, "/")
		k := r.IntN(len(segs))
		segs[k] = pick(r, hostilePathBits)
		return strings.Join(segs, "/")
	case 4:
		return strings.ToUpper(p)
	case 5:
		if len(p) > 1 {
			return p[:1+r.IntN(len(p)-1)]
		}
	}
	return p + "/" + pick(r, hostilePathBits)
}

func mutateBody(r *rand.Rand, b []byte) []byte {
	out := append([]byte(nil), b...)
	switch r.IntN(8) {
	case 0:
		for k, n := 0, 1+r.IntN(4); k < n && len(out) > 0; k++ {
			out[r.IntN(len(out))] ^= byte(1 << r.IntN(8))
		}
	case 1:
		if len(out) > 0 {
			out = out[:r.IntN(len(out))]
		}
	case 2:
		if len(out) >= 5 {
			binary.BigEndian.PutUint32(out[1:5], pick(r, []uint32{0xFFFFFFFF, 0x80000000, 0x7FFFFFFF, 1 << 24, 0, 1}))
		}
	case 3:
		n := r.IntN(64)
		out = make([]byte, n)
		for k := range out {
			out[k] = byte(r.IntN(256))
		}
	case 4:
		out = append(out, out...)
	case 5:
		if len(out) > 0 {
			out[0] = byte(r.IntN(256))
		}
	case 6:
		out = append([]byte(pick(r, []string{"{", "[", "null", "\"", "{\"a\":", "\x1f\x8b", "ZZ", "\x00\x00\x00\x00\x00"})), out...)
	case 7:
		out = nil
	}
	return out
}

// hostilePct: a grpc-message value assembled from well-formed escapes, truncated escapes, escapes with
// non-hex digits, raw bytes that should have been escaped, and plain text, in every order.
func hostilePct(r *rand.Rand) string {
	if chance(r, 5) {
		return strings.Repeat("%41", 3000)
	}
	toks := []string{"%", "%4", "%41", "%C3%A9", "%E4", "%zz", "%z", "%!", "%4z", "%%", "a", " is 100", "\xe9", "\x7f", "\t", "ok", "%00", "%0"}
	var sb strings.Builder
	for n := r.IntN(7); n >= 0; n-- {
		sb.WriteString(pick(r, toks))
	}
	return sb.String()
}

type c11Case struct {
	s       *Scenario
	ops     []string
	endErr  error
	noFlush bool
	hostile bool
	flavour string
}

func genC11(r *rand.Rand) *c11Case {
	s := genScenario(r, ScenOpts{Variety: true, Timeouts: chance(r, 30), Headers: chance(r, 30)}, "c11")
	cc := &c11Case{s: s}
	// a finite buffer limit: with the default (4 GiB) a 5-byte envelope legitimately reserves gigabytes
	s.Cfg.Limit = pick(r, []uint32{64 << 10, 1 << 20, 4 << 20})
	creq := s.Req
	built, err := creq.Build(r)
	if err != nil {
		return nil
	}
	creq.UseRawBody, creq.RawBody = true, built.Raw
	creq.RawTarget = built.Req.RequestURI
	creq.Extra = http.Header{}
	nops := r.IntN(5)
	for k := 0; k < nops; k++ {
		switch r.IntN(14) {
		case 0:
			creq.HTTPMethod = pick(r, hostileMethods)
			cc.ops = append(cc.ops, "method")
		case 1:
			path, q, _ := strings.Cut(creq.RawTarget, "?")
			creq.RawTarget = mutatePath(r, path)
			if q != "" {
				creq.RawTarget += "?" + q
			}
			cc.ops = append(cc.ops, "path")
		case 2:
			path, _, _ := strings.Cut(creq.RawTarget, "?")
			creq.RawTarget = path + "?" + pick(r, []string{"", "connect=v1", "connect=v1&encoding=proto", "connect=v1&encoding=json&message=%7B", "a=b&a=c", "%", "x=%zz", "message=&base64=2&connect=v1&encoding=proto",
				"connect=v1&encoding=proto&base64=1&message=!!!!", "connect=v1&encoding=proto&compression=gzip&base64=1&message=AAAA", strings.Repeat("k=v&", 500), "string_value=a&string_value=b", "nested.=1", ".=1", "recursive.recursive.recursive.string_value=x"})
			cc.ops = append(cc.ops, "query")
		case 3:
			creq.Extra["Content-Type"] = pick(r, [][]string{{"application/grpc", "application/json"}, {""}, {"application/"}, {"application/grpc+"}, {"application/connect+"}, {"application/grpc-web+"},
				{"text/plain"}, {"application/grpc-web-text"}, {"application/json; charset=utf-8"}, {"application/JSON"}, {"application/proto; x=y"}, {"APPLICATION/GRPC"}, {strings.Repeat("a", 5000)}, {"application/x-www-form-urlencoded"}})
			cc.ops = append(cc.ops, "content-type")
		case 4:
			creq.Extra["Content-Length"] = pick(r, [][]string{{"-1"}, {"0"}, {"99999999999999999999"}, {"abc"}, {"5", "6"}, {"4294967296"}})
			cc.ops = append(cc.ops, "content-length")
		case 5:
			h := pick(r, []string{"Grpc-Timeout", "Connect-Timeout-Ms", "X-Server-Timeout"})
			creq.Extra[h] = []string{pick(r, hostileTimeouts)}
			cc.ops = append(cc.ops, "timeout")
		case 6:
			h := pick(r, []string{"Grpc-Encoding", "Connect-Content-Encoding", "Content-Encoding", "Grpc-Accept-Encoding", "Accept-Encoding", "Connect-Accept-Encoding"})
			creq.Extra[h] = pick(r, [][]string{{"br"}, {"gzip", "gzip"}, {"identity"}, {""}, {"gzip, br;q=0.5, *"}, {"GZIP"}, {"zz"}, {",,,"}, {strings.Repeat("x,", 2000)}})
			cc.ops = append(cc.ops, "encoding")
		case 7:
			creq.Extra["Connect-Protocol-Version"] = pick(r, [][]string{{"1"}, {"2"}, {"1", "1"}, {""}, {"v1"}})
			cc.ops = append(cc.ops, "connect-version")
		case 8:
			if raw := []byte(nil); chance(r, 25) {
				if raw = hostileCompressedRequest(r, s, pick(r, []string{"corrupt", "bomb"}), int(s.Cfg.Limit)); raw != nil {
					creq.RawBody = raw
					cc.ops = append(cc.ops, "decompress-fault")
					break
				}
			}
			creq.RawBody = mutateBody(r, creq.RawBody)
			cc.ops = append(cc.ops, "body")
		case 9:
			cc.endErr = pick(r, []error{io.ErrUnexpectedEOF, errors.New("connection reset by peer"), io.ErrClosedPipe})
			cc.ops = append(cc.ops, "body-error")
		case 10:
			creq.HTTP2 = !creq.HTTP2
			cc.ops = append(cc.ops, "http-version")
		case 11:
			for j := 0; j < 200; j++ {
				creq.Extra[fmt.Sprintf("X-Flood-%d", j)] = []string{strings.Repeat("v", 50)}
			}
			cc.ops = append(cc.ops, "header-flood")
		case 12:
			cc.noFlush = true
			cc.ops = append(cc.ops, "no-flusher")
		case 13:
			creq.Extra["Te"] = []string{pick(r, []string{"", "gzip", "trailers, deflate"})}
			creq.Extra["Trailer"] = []string{"Grpc-Status"}
			cc.ops = append(cc.ops, "te")
		}
	}
	// hostile backend
	sc := s.Script
	if chance(r, 45) {
		cc.hostile = true
		switch r.IntN(14) {
		case 13:
			sc.BadEnd = pick(r, []string{"garbage", "empty", "corrupt"})
			sc.Comp, sc.CompressEnd = pick(r, []string{"", "gzip"}), chance(r, 50)
			cc.flavour = "bad-end-of-stream"
		case 12:
			hostileCompressedResponse(r, sc, pick(r, []string{"corrupt", "bomb"}), int(s.Cfg.Limit))
			cc.flavour = "decompress-fault"
		case 0:
			sc.Bare = &BareHTTP{Status: pick(r, []int{0, 1, 99, 100, 101, 102, 199, 200, 204, 205, 206, 304, 600, 999, 1000, -1, 418}), CT: pick(r, []string{"", "application/grpc", "application/json", "application/proto", "application/connect+proto"}),
				Body: mutateBody(r, []byte("0123456789"))}
			cc.flavour = "bare-status"
		case 1:
			sc.Headers = http.Header{"Grpc-Status": {pick(r, []string{"17", "-1", "4294967295", "4294967296", "99999999999999999999", "abc", "", "0x1", "1.5", " 2", "16", "0", "00"})},
				"Grpc-Message": {hostilePct(r)}, "Grpc-Status-Details-Bin": {pick(r, []string{"", "!!!", "AAAA", "CAESBGJvb20"})}}
			cc.flavour = "grpc-status-header"
		case 2:
			sc.Headers = http.Header{"Content-Length": pick(r, [][]string{{"-5"}, {"abc"}, {"5", "7"}, {"99999999999"}, {"0"}})}
			cc.flavour = "content-length-header"
		case 3:
			sc.DeclLen, sc.LenDelta = true, pick(r, []int{-1, 1, 5, -100, 1000000})
			cc.flavour = "length-lie"
		case 4:
			sc.UseRaw, sc.RawBody, sc.RawComplete = true, mutateBody(r, []byte("\x00\x00\x00\x00\x02hi\x02\x00\x00\x00\x02{}")), chance(r, 50)
			cc.flavour = "raw-body"
		case 5:
			sc.CutAt = 1 + r.IntN(20)
			cc.flavour = "early-return"
		case 6:
			sc.Panic = fmt.Sprintf("scripted backend panic %d", r.IntN(1000))
			cc.flavour = "panic"
		case 7:
			sc.WriteAfterEnd, sc.HeaderTwice = true, chance(r, 50)
			cc.flavour = "writes-after-end"
		case 8:
			sc.Headers = http.Header{"Content-Type": {pick(r, []string{"", "text/html", "application/grpc+", "application/grpc+json;charset=x", strings.Repeat("z", 3000)})},
				"Content-Encoding": {pick(r, []string{"br", "gzip", "identity", ""})}, "Grpc-Encoding": {pick(r, []string{"br", "gzip", ""})}, "Connect-Content-Encoding": {"snappy"}}
			cc.flavour = "weird-content-type"
		case 9:
			sc.Headers = http.Header{"Trailer": {"Grpc-Status, X, ,,", "Content-Length"}, "Trailer-X": {"1"}, http.TrailerPrefix + "Grpc-Status": {"7"}}
			cc.flavour = "weird-trailers"
		case 10:
			sc.NoRead, sc.RespondFirst = chance(r, 50), true
			cc.flavour = "respond-before-reading"
		case 11:
			sc.Err = &RPCError{Code: pick(r, []int{17, 1 << 20, -1, 0, 3, 13}), Msg: strings.Repeat("m", pick(r, []int{0, 10, 70000}))}
			if chance(r, 60) {
				// a grpc-message that is not (or only partly) percent-encoded, in real trailers or a trailers-only head
				sc.Err.RawGrpcMessage = hostilePct(r)
				sc.TrailersOnly = chance(r, 40)
			}
			if chance(r, 35) {
				// grpc-status-details-bin whose embedded code contradicts grpc-status (0 = "OK" inside an error)
				dc := pick(r, []int{0, 0, 17, -1, 5})
				sc.Err.DetailsCode = &dc
				if sc.Err.Code == 0 {
					sc.Err.Code = 13
				}
				sc.TrailersOnly = chance(r, 30)
				sc.ErrAfter = r.IntN(2)
			}
			cc.flavour = "weird-error"
		}
	}
	return cc
}

func runC11(c *Ctx, i int, r *rand.Rand) {
	c11Log(i)
	cc := genC11(r)
	if cc == nil {
		return
	}
	s := cc.s
	e, err := runRPC(s.Cfg, s.Req, s.Script, r, &execOpts{Chunks: chunkPlan(r), EndErr: cc.endErr, NoFlusher: cc.noFlush})
	if err != nil {
		c.Count("unbuildable")
		return // the request line itself does not parse: a server never hands it to a handler
	}
	c.Eval()
	if i < 3 {
		c.Sample(map[string]any{"case": i, "mutations": cc.ops, "backend": cc.flavour, "describe": e.Describe()})
	}
	bo := e.Backend.Obs
	outcome := "rejected"
	if bo.Invocations > 0 {
		outcome = "dispatched"
	}
	if e.Unknown.Invocations > 0 {
		outcome = "unknown-handler"
	}
	c.Count(outcome)
	if cc.hostile && bo.Invocations > 0 {
		c.Count("backend-hostile")
		c.Count("backend:" + cc.flavour)
	}
	for _, op := range cc.ops {
		c.Count("mutation:" + op)
	}
	if len(cc.ops) > 0 || cc.hostile {
		c.Nontrivial(fmt.Sprintf("%v|%s|%s|%s", cc.ops, cc.flavour, outcome, s.Req.Form))
	}
	detail := func() string { return fmt.Sprintf("mutations=%v backend=%s\n%s", cc.ops, cc.flavour, e.Describe()) }
	if e.Panic != nil {
		c.Violate(i, "panic/"+panicSite(e.Stack), fmt.Sprintf("ServeHTTP panicked: %v\n--- stack (vanguard and protobuf frames):\n%s\n%s", e.Panic, stackDigest(e.Stack), detail()))
		return
	}
	pt := bo.Invocations > 0 && len(cc.ops) == 0 && passThrough(s, bo)
	directWriter := bo.Direct // the backend was handed the server's own ResponseWriter (pass-through / unknown handler)
	_ = pt
	if !directWriter {
		for _, f := range e.Rec.Faults {
			c.Violate(i, "unframable-response/"+classify(f), fmt.Sprintf("%s\n%s", f, detail()))
		}
		if e.Rec.HeadWrites > 1 {
			c.Violate(i, "second-response-head", detail())
		}
	}
	if len(e.Rec.After) > 0 || e.Built.Body.After > 0 {
		c.Violate(i, "io-after-return", fmt.Sprintf("after ServeHTTP returned: writer %v, body reads %d\n%s", e.Rec.After, e.Built.Body.After, detail()))
	}
	if bo.Endless {
		c.Violate(i, "request-body-never-ends", fmt.Sprintf("the body handed to the backend did not reach its end (%v): a handler reading to EOF never returns\n%s", bo.ReadErr, detail()))
	}
	if bo.Invocations > 1 || bo.Invocations+e.Unknown.Invocations > 1 {
		c.Violate(i, "dispatched-twice", detail())
	}
}

// stackDigest keeps the function lines of the frames that matter for triage.
func stackDigest(stack string) string {
	var out []string
	for _, line := range strings.Split(stack, "\n") {
		if strings.HasPrefix(line, "\t") {
			continue
		}
		if strings.Contains(line, "connectrpc.com/vanguard.") || strings.Contains(line, "google.golang.org/protobuf") || strings.Contains(line, "panic") {
			out = append(out, line)
		}
		if len(out) >= 25 {
			break
		}
	}
	return strings.Join(out, "\n")
}
