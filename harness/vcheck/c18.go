package main

import (
	"google.golang.org/protobuf/reflect/protoreflect"
	"fmt"
	"io"
	"math/rand/v2"
	"net/http"
	"strings"
)

func init() {
	register(&Property{
		ID:    "C18",
		Level: "fault_enumeration",
		Rule: "case i = (class i mod K, variation): K rejection classes (multiple content-types; Connect markers on a non-GET with or without content-type; unknown RPC path with and without unknown handler; " +
			"REST path without route; REST route with another HTTP method; RPC path with a non-POST method; Connect GET on a method with side effects; stream type the client form cannot carry; " +
			"bidi over HTTP/1.1; gRPC over HTTP/1.1; malformed timeout in each encoding; Content-Encoding on an enveloped protocol; unknown compression; unknown codec (foreign names and names that merely start like a registered one; for REST, media types other than application/json incl. json-patch+json, jsonl, json-seq); REST-only target for a method without binding; " +
			"undecodable / truncated / oversized / undecompressable leading message when the request line needs it; a leading message that decodes but whose path-variable field does not fit the REST template; ResponseWriter without Flusher) x every client form that can express them x random configurations, " +
			"plus exit-path classes (success, pass-through, unknown handler, mid-stream request error, mid-stream response error, handler panic). monitors: invocation counters over all handlers, the context the handler saw " +
			"(inspected after ServeHTTP returned), after-return flags on the instrumented request body and ResponseWriter. oracle: <=1 invocation always, 0 service invocations for every rejection class, ctx.Err()!=nil after return, no I/O after return. " +
			"non-trivial = rejection after the method was resolved or an exit path other than plain success; distinct by (class, form, config)",
		Assume: []string{"a handler that keeps using the request after returning is out of scope; the scripted handlers do not"},
		N:      func(t string) int { return tierN(t, 30000, 600000) },
		Run:    runC18,
		MinimaFor: func(t string) map[string]int {
			return map[string]int{"rejections-checked": tierN(t, 12000, 240000), "exit-paths-checked": tierN(t, 6000, 120000)}
		},
	})
}

var c18Classes = []string{"multi-content-type", "connect-marker-non-get", "unknown-rpc-path", "unknown-rpc-path+handler", "rest-no-route", "rest-wrong-method", "rpc-non-post",
	"connect-get-side-effects", "stream-type-unsupported", "bidi-http1", "grpc-http1", "malformed-timeout", "content-encoding-on-enveloped", "unknown-compression", "unknown-codec",
	"rest-only-no-binding", "bad-leading-message", "unroutable-leading-message", "no-flusher",
	"exit:success", "exit:mid-request-error", "exit:mid-response-error", "exit:handler-panic", "exit:body-error", "exit:success"}

func runC18(c *Ctx, i int, r *rand.Rand) {
	kitchen()
	class := c18Classes[i%len(c18Classes)]
	var s *Scenario
	eo := &execOpts{Chunks: chunkPlan(r)}
	expectDispatch := -1 // -1: don't care, 0: must not dispatch to a service
	expectUnknown := -1
	form := ClientForm(r.IntN(int(numForms)))
	pickScenario := func(so ScenOpts) *Scenario {
		so.ForceForm = &form
		for tries := 0; tries < 50; tries++ {
			sc := genScenario(r, so, "c18")
			if sc != nil {
				return sc
			}
		}
		return nil
	}
	switch class {
	case "exit:success", "exit:mid-request-error", "exit:mid-response-error", "exit:handler-panic", "exit:body-error":
		s = genScenario(r, ScenOpts{Variety: true}, "c18")
		form = s.Req.Form
		switch class {
		case "exit:mid-request-error":
			built, err := s.Req.Build(r)
			if err != nil || len(built.Raw) < 2 {
				return
			}
			s.Req.UseRawBody, s.Req.RawBody = true, mutateBody(r, built.Raw)
		case "exit:mid-response-error":
			s.Script.Err, s.Script.Bare = nil, nil
			s.Script.CutAt = 1 + r.IntN(12)
		case "exit:handler-panic":
			s.Script.Panic = fmt.Sprintf("scripted panic %d", i)
		case "exit:body-error":
			eo.EndErr = io.ErrUnexpectedEOF
		}
	default:
		s = pickScenario(ScenOpts{})
		if s == nil {
			return
		}
		expectDispatch = 0
		s.Req.Extra = http.Header{}
		req := s.Req
		enc, _, toH := encName(form)
		switch class {
		case "multi-content-type":
			built, err := req.Build(r)
			if err != nil {
				return
			}
			req.Extra["Content-Type"] = []string{built.Req.Header.Get("Content-Type"), pick(r, []string{"application/json", "application/grpc", "text/plain"})}
		case "connect-marker-non-get":
			if form != FConnectGet {
				return
			}
			req.HTTPMethod = pick(r, []string{"POST", "PUT", "DELETE"})
			if chance(r, 50) {
				// the same with an application/* content-type: the connect=v1 query marker on a non-GET request is
				// still unclassifiable (it must not be taken for a REST request, nor handed to the unknown handler)
				req.GetViaQuery = true
				req.Extra["Content-Type"] = []string{pick(r, []string{"application/json", "application/proto", "application/octet-stream"})}
				if chance(r, 50) {
					s.Cfg.Unknown = true
					expectUnknown = 0
				}
			}
		case "unknown-rpc-path", "unknown-rpc-path+handler":
			if form == FREST {
				req.RawTarget = "/v7/definitely/not/a/route"
			} else {
				req.RawTarget = pick(r, []string{"/verif.v1.Kitchen/Nope", "/no.Service/Unary", "/verif.v1.Kitchen/Unary/x"})
				if form == FConnectGet {
					req.RawTarget += "?connect=v1&encoding=proto&message="
				}
			}
			if class == "unknown-rpc-path+handler" {
				s.Cfg.Unknown = true
				expectUnknown = 1
			} else {
				expectUnknown = 0
			}
		case "rest-no-route":
			form = FREST
			s = pickScenario(ScenOpts{})
			if s == nil {
				return
			}
			s.Req.Extra = http.Header{}
			s.Req.RawTarget = pick(r, []string{"/v1", "/v1/params", "/v1/params/a/1/extra", "/v2/params/a/1", "/v1/pv/x:nope", "/", "/v1/multi/a/x/c/y"})
		case "rest-wrong-method":
			form = FREST
			s = pickScenario(ScenOpts{})
			if s == nil || s.Req.Binding.HTTPMethod == "*" {
				return
			}
			s.Req.Extra = http.Header{}
			for {
				mth := pick(r, []string{"GET", "POST", "PUT", "PATCH", "DELETE", "OPTIONS"})
				if mth != s.Req.Binding.HTTPMethod && !(s.Req.M.Name == "Verb") {
					s.Req.HTTPMethod = mth
					if mth == "OPTIONS" && chance(r, 70) {
						// a CORS preflight is still a request with the wrong HTTP method for this route
						s.Req.Extra["Access-Control-Request-Method"] = []string{s.Req.Binding.HTTPMethod}
						s.Req.Extra["Origin"] = []string{"https://example.test"}
						if chance(r, 60) {
							s.Cfg.Unknown = true
							expectUnknown = 0
						}
					}
					break
				}
				if s.Req.M.Name == "Verb" {
					return
				}
			}
		case "rpc-non-post":
			if form == FREST || form == FConnectGet {
				return
			}
			req.HTTPMethod = pick(r, []string{"PUT", "DELETE", "PATCH", "OPTIONS"})
		case "connect-get-side-effects":
			form = FConnectGet
			m := kitchenInfo[pick(r, []string{"Unary", "UnaryIdem", "PostParams"})]
			req = &ClientReq{Form: FConnectGet, M: m, Codec: pick(r, []string{"proto", "json"}), GetViaQuery: chance(r, 50), Msgs: []protoMsg{genMessage(r, m.In(), genOpts{density: 3})}, Extra: http.Header{}}
			s.Req = req
		case "stream-type-unsupported":
			switch form {
			case FConnectUnary:
				m := kitchenInfo[pick(r, []string{"ClientStream", "ServerStream", "Bidi"})]
				s.Req = &ClientReq{Form: FConnectUnary, M: m, Codec: "proto", HTTP2: true, Msgs: []protoMsg{genMessage(r, m.In(), genOpts{density: 3})}, Extra: http.Header{}}
			case FConnectStream:
				m := kitchenInfo[pick(r, []string{"Unary", "GetParams"})]
				s.Req = &ClientReq{Form: FConnectStream, M: m, Codec: "proto", HTTP2: true, Msgs: []protoMsg{genMessage(r, m.In(), genOpts{density: 3})}, Extra: http.Header{}}
			default:
				return
			}
		case "bidi-http1":
			if form != FConnectStream && form != FGRPCWeb {
				return
			}
			m := kitchenInfo["Bidi"]
			s.Req = &ClientReq{Form: form, M: m, Codec: "proto", HTTP2: false, Msgs: []protoMsg{genMessage(r, m.In(), genOpts{density: 3})}, Extra: http.Header{}}
		case "grpc-http1":
			form = FGRPC
			s = pickScenario(ScenOpts{})
			if s == nil {
				return
			}
			s.Req.Extra = http.Header{}
			s.Req.ForceHTTP1 = true
		case "malformed-timeout":
			req.Extra[toH] = []string{pick(r, []string{"abc", "-5", "5x", "1.2.3", "--", "5 5"})}
		case "content-encoding-on-enveloped":
			if !form.Enveloped() {
				return
			}
			req.Extra["Content-Encoding"] = []string{pick(r, []string{"gzip", "br", "deflate"})}
		case "unknown-compression":
			if form == FConnectGet {
				return
			}
			req.Extra[enc] = []string{pick(r, []string{"br", "snappy", "zstd", "GZIP"})}
			if form == FREST && (req.Rest == nil || !req.Rest.HasBody) {
				return
			}
		case "unknown-codec":
			// a codec nobody registered: either plainly foreign, or a name that merely starts like a registered one
			name := pick(r, []string{"yaml", "yaml", "jsonx", "json5", "protox", "proto2", "json-seq", "JSONL"})
			ct := map[ClientForm]string{FConnectUnary: "application/" + name, FConnectStream: "application/connect+" + name, FGRPC: "application/grpc+" + name, FGRPCWeb: "application/grpc-web+" + name}[form]
			if form == FREST {
				// REST speaks JSON only (bodies mapped to google.api.HttpBody take any type and are left out)
				if req.Rest == nil || !req.Rest.HasBody || req.Binding == nil || isHTTPBodyBinding(req.Binding) {
					return
				}
				ct = pick(r, []string{"application/yaml", "text/plain", "application/xml", "application/json-patch+json", "application/jsonl", "application/json-seq", "application/json5; charset=utf-8", "application/x-json", "text/json", "application/jsonx"})
			}
			if ct == "" {
				return
			}
			req.Extra["Content-Type"] = []string{ct}
		case "rest-only-no-binding":
			if form == FREST {
				return
			}
			m := kitchenInfo[pick(r, []string{"Unary", "UnaryNSE", "ClientStream", "Bidi"})]
			fs := formsFor(m)
			form = pick(r, fs)
			s.Cfg = &SvcConfig{Protocols: []string{"rest"}, Codecs: []string{"json"}, Comps: []string{}}
			n := 1
			s.Req = &ClientReq{Form: form, M: m, Codec: "proto", HTTP2: true, GetViaQuery: true, Extra: http.Header{}}
			for k := 0; k < n; k++ {
				s.Req.Msgs = append(s.Req.Msgs, genMessage(r, m.In(), genOpts{density: 3}))
			}
		case "bad-leading-message":
			// the request line of a REST target needs the first message
			m := kitchenInfo[pick(r, []string{"GetParams", "PostParams", "NestedVar", "Multi"})]
			fs := []ClientForm{FGRPC, FGRPCWeb, FConnectUnary}
			form = pick(r, fs)
			s.Cfg = &SvcConfig{Protocols: []string{"rest"}, Codecs: []string{"json"}, Comps: []string{"gzip"}, Limit: 4096}
			s.Req = &ClientReq{Form: form, M: m, Codec: pick(r, []string{"proto", "json"}), HTTP2: true, Extra: http.Header{}}
			var body []byte
			switch r.IntN(4) {
			case 0:
				body = []byte{0xff, 0xff, 0xff, 0xff, 0x0f}
				if s.Req.Codec == "json" {
					body = []byte(`{"stringValue": 12`)
				}
			case 1:
				body = []byte(strings.Repeat("a", 6000)) // over the limit
			case 2:
				s.Req.Comp = "gzip"
				body = []byte("\x1f\x8b\x08\x00garbage-not-gzip")
			case 3:
				body = []byte{0x0a, 0x10, 'a'} // declares a 16-byte string, carries one byte
				if s.Req.Codec == "json" {
					body = []byte(`{"int32Value": "x"}`)
				}
			}
			if form.Enveloped() {
				fl := byte(0)
				if s.Req.Comp != "" {
					fl = 1
				}
				body = appendFrame(nil, fl, body)
				if r.IntN(4) == 0 {
					body = body[:len(body)-1] // truncated frame
				}
			}
			s.Req.UseRawBody, s.Req.RawBody = true, body
		case "unroutable-leading-message":
			// the leading message decodes, but a field bound to a multi-segment path variable does not fit the
			// REST target's template: no request line can be built, so the backend must not be invoked
			mname := pick(r, []string{"Multi", "TwoSeg"})
			m := kitchenInfo[mname]
			form = pick(r, []ClientForm{FGRPC, FGRPCWeb, FConnectUnary})
			s.Cfg = &SvcConfig{Protocols: []string{"rest"}, Codecs: []string{"json"}, Comps: []string{"gzip"}, Limit: 1 << 20}
			s.Req = &ClientReq{Form: form, M: m, Codec: pick(r, []string{"proto", "json"}), HTTP2: true, Extra: http.Header{}}
			msg := genMessage(r, m.In(), genOpts{density: 2, noMaps: true, simpleStr: true})
			mr := msg.ProtoReflect()
			sv := mr.Descriptor().Fields().ByName("string_value")
			if mname == "Multi" {
				mr.Set(sv, protoreflect.ValueOfString(pick(r, []string{"", "a", "a/x", "a/x/b", "z/x/b/c", "nothing", "a/x/c/d", "b/x/a/q"})))
			} else {
				mr.Set(sv, protoreflect.ValueOfString(pick(r, []string{"", "nope", "y/1", "x", "x/1/2"})))
			}
			s.Req.Msgs = []protoMsg{msg}
			s.Req.FrameComp = []bool{false}
		case "no-flusher":
			eo.NoFlusher = true
			// only transcoded requests need the Flusher; make sure a conversion is needed
			if resolveTarget(s.Cfg, form.Protocol()) == form.Protocol() {
				return
			}
		}
	}
	if s.Cfg.Limit == 0 {
		s.Cfg.Limit = 1 << 20 // mutated envelopes may announce gigabytes
	}
	e, err := runRPC(s.Cfg, s.Req, s.Script, r, eo)
	if err != nil {
		return
	}
	c.Eval()
	if i < len(c18Classes) && i%6 == 0 {
		c.Sample(map[string]any{"case": i, "class": class, "describe": e.Describe()})
	}
	bo := e.Backend.Obs
	feat := class + "/" + form.String()
	detail := func() string { return fmt.Sprintf("class=%s\n%s", class, e.Describe()) }
	c.Nontrivial(fmt.Sprintf("%s|%v|%v", feat, s.Cfg.Protocols, s.Cfg.Codecs))
	if e.Panic != nil && class != "exit:handler-panic" {
		c.Violate(i, "transcoder-panic/"+panicSite(e.Stack), detail())
		return
	}
	total := bo.Invocations + e.Unknown.Invocations
	if total > 1 {
		c.Violate(i, "dispatched-more-than-once/"+feat, detail())
	}
	if expectDispatch == 0 {
		c.Count("rejections-checked")
		c.Count("class:" + class)
		if bo.Invocations != 0 {
			c.Violate(i, "rejected-request-dispatched/"+feat, detail())
		}
		if expectUnknown >= 0 && e.Unknown.Invocations != expectUnknown {
			c.Violate(i, fmt.Sprintf("unknown-handler-invocations-%d/%s", e.Unknown.Invocations, feat), detail())
		}
		if e.Unknown.Invocations == 0 && e.Out.Kind == "ok" {
			c.Violate(i, "rejection-reported-as-success/"+feat, detail())
		}
		if e.Unknown.Invocations == 0 && e.Out.Kind == "httperror" && e.Out.Status < 400 {
			c.Violate(i, "rejection-without-error-status/"+feat, detail())
		}
	} else {
		c.Count("exit-paths-checked")
		c.Count("class:" + class)
	}
	// context released, no I/O after return
	if bo.Ctx != nil && bo.Ctx.Err() == nil {
		c.Violate(i, "context-not-cancelled-after-return/"+feat, detail())
	}
	if e.Unknown.Ctx != nil && e.Unknown.Ctx.Err() == nil {
		c.Violate(i, "context-not-cancelled-after-return/unknown-handler/"+feat, detail())
	}
	if len(e.Rec.After) > 0 || e.Built.Body.After > 0 {
		c.Violate(i, "io-after-return/"+feat, fmt.Sprintf("writer %v, body reads %d\n%s", e.Rec.After, e.Built.Body.After, detail()))
	}
}
