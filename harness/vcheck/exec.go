package main

// Scenario execution: configuration -> Transcoder (cached), one RPC through ServeHTTP.

import (
	"context"
	"fmt"
	"math/rand/v2"
	"net/http"
	"runtime/debug"
	"sort"
	"strings"
	"sync"

	"connectrpc.com/vanguard"
	"google.golang.org/genproto/googleapis/api/annotations"
	"google.golang.org/protobuf/reflect/protoreflect"
	"google.golang.org/protobuf/reflect/protoregistry"
)

type SvcConfig struct {
	Protocols  []string // subset of connect, grpc, grpcweb, rest
	Codecs     []string // preferred first
	Comps      []string // target compressions
	Limit      uint32   // 0 = default
	MaxGetURL  uint32   // 0 = default
	KnowZZ     bool     // transcoder knows the "zz" algorithm
	Unknown    bool     // unknown-endpoint handler installed
	DiscardUnknownQuery bool
	Schema     string // "kitchen" (default), "library"
	// TwoResolvers: the transcoder also serves verif.one.One with the default type resolver, while the main service gets a
	// resolver that additionally knows verif.v1.Private (anything cached per transcoder instead of per service shows)
	TwoResolvers bool
}

func (c *SvcConfig) Key() string {
	return fmt.Sprintf("%s|%v|%v|%v|%d|%d|%v|%v|%v|%v", c.Schema, c.Protocols, c.Codecs, c.Comps, c.Limit, c.MaxGetURL, c.KnowZZ, c.Unknown, c.DiscardUnknownQuery, c.TwoResolvers)
}

func (c *SvcConfig) HasProtocol(p string) bool { return contains(c.Protocols, p) }

var protoByName = map[string]vanguard.Protocol{
	"connect": vanguard.ProtocolConnect, "grpc": vanguard.ProtocolGRPC,
	"grpcweb": vanguard.ProtocolGRPCWeb, "rest": vanguard.ProtocolREST,
}

type ctxKey struct{}
type ctxUnknownKey struct{}

// dispatcher routes to the per-scenario backend carried in the request context.
var dispatcher = http.HandlerFunc(func(w http.ResponseWriter, r *http.Request) {
	b, _ := r.Context().Value(ctxKey{}).(http.Handler)
	if b == nil {
		w.WriteHeader(599)
		return
	}
	b.ServeHTTP(w, r)
})

var unknownDispatcher = http.HandlerFunc(func(w http.ResponseWriter, r *http.Request) {
	b, _ := r.Context().Value(ctxUnknownKey{}).(http.Handler)
	if b == nil {
		w.WriteHeader(598)
		return
	}
	b.ServeHTTP(w, r)
})

var (
	tcMu    sync.Mutex
	tcCache = map[string]*vanguard.Transcoder{}
)

func svcOptions(c *SvcConfig) []vanguard.ServiceOption {
	var opts []vanguard.ServiceOption
	var ps []vanguard.Protocol
	for _, p := range c.Protocols {
		ps = append(ps, protoByName[p])
	}
	opts = append(opts, vanguard.WithTargetProtocols(ps...))
	opts = append(opts, vanguard.WithTargetCodecs(c.Codecs...))
	opts = append(opts, vanguard.WithTargetCompression(c.Comps...))
	if c.Limit > 0 {
		opts = append(opts, vanguard.WithMaxMessageBufferBytes(c.Limit))
	}
	if c.MaxGetURL > 0 {
		opts = append(opts, vanguard.WithMaxGetURLBytes(c.MaxGetURL))
	}
	if c.DiscardUnknownQuery {
		opts = append(opts, vanguard.WithRESTUnmarshalOptions(vanguard.RESTUnmarshalOptions{DiscardUnknownQueryParams: true}))
	}
	return opts
}

func schemaService(name string) protoreflect.ServiceDescriptor {
	switch name {
	case "", "kitchen":
		sd, _ := kitchen()
		return sd
	case "library":
		sd, _ := globalService("vanguard.test.v1.LibraryService")
		return sd
	case "content":
		sd, _ := globalService("vanguard.test.v1.ContentService")
		return sd
	}
	panic("unknown schema " + name)
}

func schemaMethods(name string) []*MethodInfo {
	switch name {
	case "", "kitchen":
		kitchen()
		return kitchenList
	case "library":
		_, ms := globalService("vanguard.test.v1.LibraryService")
		return ms
	case "content":
		_, ms := globalService("vanguard.test.v1.ContentService")
		return ms
	case "library+content":
		_, a := globalService("vanguard.test.v1.LibraryService")
		_, b := globalService("vanguard.test.v1.ContentService")
		return append(append([]*MethodInfo{}, a...), b...)
	}
	panic("unknown schema " + name)
}

var (
	globalSvcMu sync.Mutex
	globalSvcs  = map[string][]*MethodInfo{}
)

// globalService returns a service registered by generated code together with its method infos.
func globalService(name string) (protoreflect.ServiceDescriptor, []*MethodInfo) {
	d, err := protoregistry.GlobalFiles.FindDescriptorByName(protoreflect.FullName(name))
	if err != nil {
		panic(err)
	}
	sd := d.(protoreflect.ServiceDescriptor)
	globalSvcMu.Lock()
	defer globalSvcMu.Unlock()
	if ms, ok := globalSvcs[name]; ok {
		return sd, ms
	}
	_, ms := methodInfos(sd)
	globalSvcs[name] = ms
	return sd, ms
}

func buildTranscoder(c *SvcConfig, fresh bool) (*vanguard.Transcoder, error) {
	key := c.Key()
	if !fresh {
		tcMu.Lock()
		t := tcCache[key]
		tcMu.Unlock()
		if t != nil {
			return t, nil
		}
	}
	svc := vanguard.NewServiceWithSchema(schemaService(c.Schema), dispatcher, svcOptions(c)...)
	svcs := []*vanguard.Service{svc}
	if c.TwoResolvers {
		// two services on one transcoder whose type resolvers differ: Kitchen's knows verif.v1.Private, One's does not
		selServices()
		svc = vanguard.NewServiceWithSchema(schemaService(c.Schema), dispatcher, append(svcOptions(c), vanguard.WithTypeResolver(privResolver{}))...)
		svcs = []*vanguard.Service{svc, vanguard.NewServiceWithSchema(oneSvc, dispatcher, svcOptions(c)...)}
	}
	var topts []vanguard.TranscoderOption
	if c.KnowZZ {
		topts = append(topts, vanguard.WithCompression("zz", newZZCompressor, newZZDecompressor))
	}
	if c.Unknown {
		topts = append(topts, vanguard.WithUnknownHandler(unknownDispatcher))
	}
	t, err := vanguard.NewTranscoder(svcs, topts...)
	if err != nil {
		return nil, err
	}
	if !fresh {
		tcMu.Lock()
		tcCache[key] = t
		tcMu.Unlock()
	}
	return t, nil
}

var _ = annotations.E_Http

// Exec is one executed RPC with everything that was observed.
type Exec struct {
	Cfg     *SvcConfig
	Req     *ClientReq
	Built   *BuiltReq
	Rec     *Recorder
	Backend *Backend
	Unknown *rawHandler
	Out     *Outcome
	Panic   any
	Stack   string
	Ctx     context.Context
}

// rawHandler is a recording handler used as unknown-endpoint handler / pass-through target.
type rawHandler struct {
	Ctx         context.Context
	Invocations int
	Req         *http.Request
	Header      http.Header
	Body        []byte
	Fn          func(w http.ResponseWriter, r *http.Request)
}

func (h *rawHandler) ServeHTTP(w http.ResponseWriter, r *http.Request) {
	h.Invocations++
	h.Ctx = r.Context()
	if h.Fn != nil {
		h.Fn(w, r)
	}
}

type execOpts struct {
	Chunks    []int
	EndErr    error
	NoFlusher bool
	Transcoder *vanguard.Transcoder
	Lock      bool
	PreRun    func(e *Exec)
	WrapWriter func(http.ResponseWriter) http.ResponseWriter
}

// runRPC builds the request, runs it through the transcoder and parses the response.
func runRPC(cfg *SvcConfig, creq *ClientReq, script *BackendScript, r *rand.Rand, eo *execOpts) (*Exec, error) {
	if eo == nil {
		eo = &execOpts{}
	}
	t := eo.Transcoder
	if t == nil {
		var err error
		t, err = buildTranscoder(cfg, false)
		if err != nil {
			return nil, fmt.Errorf("NewTranscoder(%s): %w", cfg.Key(), err)
		}
	}
	built, err := creq.Build(r)
	if err != nil {
		return nil, err
	}
	built.Body.Chunks = eo.Chunks
	built.Body.EndErr = eo.EndErr
	e := &Exec{Cfg: cfg, Req: creq, Built: built, Rec: newRecorder()}
	methods := schemaMethods(cfg.Schema)
	if cfg.TwoResolvers {
		selServices()
		methods = append(append([]*MethodInfo{}, methods...), oneMs...)
	}
	e.Backend = newBackend(methods, script)
	e.Unknown = &rawHandler{}
	if eo.Lock {
		e.Rec.Lock = &sync.Mutex{}
	}
	built.Body.Returned = &e.Rec.Returned
	ctx, cancel := context.WithCancel(context.Background())
	defer cancel()
	ctx = context.WithValue(ctx, ctxKey{}, http.Handler(e.Backend))
	ctx = context.WithValue(ctx, ctxUnknownKey{}, http.Handler(e.Unknown))
	req := built.Req.WithContext(ctx)
	e.Rec.IsHead = req.Method == "HEAD"
	if eo.PreRun != nil {
		eo.PreRun(e)
	}
	var w http.ResponseWriter = e.Rec
	if eo.NoFlusher {
		w = noFlushRecorder{e.Rec}
	}
	if eo.WrapWriter != nil {
		w = eo.WrapWriter(w)
	}
	func() {
		defer func() {
			if p := recover(); p != nil {
				if script != nil && script.Panic != nil && p == script.Panic {
					return // the backend's own panic; net/http would recover it
				}
				e.Panic = p
				e.Stack = string(debug.Stack())
			}
		}()
		t.ServeHTTP(w, req)
	}()
	e.Rec.Finish()
	e.Out = ParseResponse(creq, e.Rec)
	return e, nil
}

func (e *Exec) Describe() string {
	var sb strings.Builder
	c := e.Req
	fmt.Fprintf(&sb, "config: protocols=%v codecs=%v comps=%v limit=%d knowZZ=%v\n", e.Cfg.Protocols, e.Cfg.Codecs, e.Cfg.Comps, e.Cfg.Limit, e.Cfg.KnowZZ)
	fmt.Fprintf(&sb, "client: form=%s method=%s codec=%s comp=%q accept=%v frameComp=%v msgs=%d timeout=%q\n", c.Form, c.M.Name, c.Codec, c.Comp, c.Accept, c.FrameComp, len(c.Msgs), c.Timeout)
	if e.Built != nil {
		fmt.Fprintf(&sb, "request: %s %s proto=%s headers=%v body=%d bytes\n", e.Built.Req.Method, e.Built.Req.RequestURI, e.Built.Req.Proto, hdrString(e.Built.Req.Header), len(e.Built.Raw))
	}
	if b := e.Backend; b != nil {
		o := b.Obs
		fmt.Fprintf(&sb, "backend saw: invocations=%d proto=%s %s %s?%s codec=%s comp=%q accept=%v headers=%v body=%d bytes readErr=%v msgs=%d flags=%v bad=%v\n",
			o.Invocations, o.Proto, o.Method, o.Path, o.RawQuery, o.Codec, o.Comp, o.Accept, hdrString(o.Header), len(o.Body), o.ReadErr, len(o.RawMsgs), o.FrameFlags, o.Bad)
		s := b.Script
		fmt.Fprintf(&sb, "script: msgs=%d comp=%q(used %q) frameComp=%v err=%v errAfter=%d trailersOnly=%v bare=%v declLen=%v declTrailers=%v cut=%d writeErrs=%v\n",
			len(s.Msgs), s.Comp, o.UsedComp, s.FrameComp, s.Err, s.ErrAfter, s.TrailersOnly, s.Bare, s.DeclLen, s.DeclareTrailers, s.CutAt, o.WriteErrs)
	}
	if e.Rec != nil {
		fmt.Fprintf(&sb, "client got: status=%d headers=%v trailers=%v body=%d bytes %q\n", e.Rec.Code, hdrString(e.Rec.HeadersSent()), hdrString(e.Rec.Trailers()), e.Rec.Body.Len(), clip(e.Rec.Body.Bytes(), 200))
	}
	if e.Out != nil {
		fmt.Fprintf(&sb, "outcome: %s\n", e.Out.Summary())
	}
	if e.Panic != nil {
		fmt.Fprintf(&sb, "PANIC: %v\n%s\n", e.Panic, e.Stack)
	}
	return sb.String()
}

func clip(b []byte, n int) []byte {
	if len(b) > n {
		return b[:n]
	}
	return b
}

func hdrString(h http.Header) string {
	var parts []string
	for _, k := range sortedKeys(h) {
		parts = append(parts, fmt.Sprintf("%s=%q", k, h[k]))
	}
	sort.Strings(parts)
	s := strings.Join(parts, " ")
	if len(s) > 800 {
		s = s[:800] + "..."
	}
	return "{" + s + "}"
}

// panicSite returns the innermost vanguard function on a panic stack.
func panicSite(stack string) string {
	for _, line := range strings.Split(stack, "\n") {
		if strings.HasPrefix(line, "connectrpc.com/vanguard.") {
			fn := strings.TrimPrefix(line, "connectrpc.com/vanguard.")
			if i := strings.LastIndex(fn, "("); i > 0 {
				fn = fn[:i]
			}
			return fn
		}
	}
	return "unknown"
}
