package main

// Observation boundary: instrumented http.ResponseWriter and request body.

import (
	"bytes"
	"fmt"
	"io"
	"net/http"
	"net/textproto"
	"strconv"
	"strings"
	"sync"
)

type recEvent struct {
	Kind    byte // 'H' header, 'W' write, 'F' flush
	N       int  // bytes in this write
	BodyLen int  // body length after the event
}

// Recorder is the client-side http.ResponseWriter. Like net/http's it is not
// internally synchronised unless Lock is set (effect-monitor mode).
type Recorder struct {
	hdr        http.Header
	Code       int
	Snap       http.Header // header snapshot at the time the head was written
	HeadWrites int         // number of WriteHeader calls with a final (non-1xx) status
	Body       bytes.Buffer
	Events     []recEvent
	Flushes    int
	Faults     []string // net/http framing rules that were broken
	Returned   bool     // set by the driver when ServeHTTP has returned
	After      []string // I/O performed after ServeHTTP returned
	IsHead     bool
	Lock       *sync.Mutex
	OnWrite    func(bodyLen int) // optional monitor callback (C16)
	declared   int64
	DroppedCL  string // invalid Content-Length that net/http would have dropped
}

func newRecorder() *Recorder { return &Recorder{hdr: http.Header{}, declared: -1} }

func (r *Recorder) lock() {
	if r.Lock != nil {
		r.Lock.Lock()
	}
}
func (r *Recorder) unlock() {
	if r.Lock != nil {
		r.Lock.Unlock()
	}
}

func (r *Recorder) Header() http.Header { return r.hdr }

func (r *Recorder) fault(f string) { r.Faults = append(r.Faults, f) }

func (r *Recorder) WriteHeader(code int) {
	r.lock()
	defer r.unlock()
	if r.Returned {
		r.After = append(r.After, "WriteHeader")
	}
	r.writeHeaderLocked(code, true)
}

func (r *Recorder) writeHeaderLocked(code int, explicit bool) {
	if code < 100 || code > 999 {
		r.fault(fmt.Sprintf("invalid WriteHeader code %d (net/http panics)", code))
		if r.Code == 0 {
			r.Code = code
			r.Snap = r.hdr.Clone()
		}
		r.HeadWrites++
		return
	}
	if code >= 100 && code < 200 && code != 101 {
		return // informational; not the response head
	}
	r.HeadWrites++
	if r.Code != 0 {
		if explicit {
			r.fault("superfluous WriteHeader")
		}
		return
	}
	r.Code = code
	r.Snap = r.hdr.Clone()
	r.Events = append(r.Events, recEvent{Kind: 'H'})
	if cl := r.Snap.Get("Content-Length"); cl != "" {
		n, err := strconv.ParseInt(cl, 10, 64)
		if err != nil || n < 0 {
			// net/http logs "invalid Content-Length" and drops the header
			r.Snap.Del("Content-Length")
			r.DroppedCL = cl
		} else {
			r.declared = n
		}
		if len(r.Snap.Values("Content-Length")) > 1 {
			r.fault("multiple Content-Length values")
		}
	}
}

func bodyAllowed(code int) bool {
	return !(code >= 100 && code <= 199 || code == 204 || code == 304)
}

func (r *Recorder) Write(p []byte) (int, error) {
	r.lock()
	defer r.unlock()
	if r.Returned {
		r.After = append(r.After, "Write")
	}
	if r.Code == 0 {
		r.writeHeaderLocked(200, false)
	}
	if len(p) > 0 && (!bodyAllowed(r.Code) || r.IsHead) {
		if !bodyAllowed(r.Code) {
			r.fault(fmt.Sprintf("body written with status %d", r.Code))
		}
		return 0, http.ErrBodyNotAllowed
	}
	if r.declared >= 0 && int64(r.Body.Len()+len(p)) > r.declared {
		r.fault(fmt.Sprintf("wrote more than the declared Content-Length %d", r.declared))
		return 0, http.ErrContentLength
	}
	r.Body.Write(p)
	r.Events = append(r.Events, recEvent{Kind: 'W', N: len(p), BodyLen: r.Body.Len()})
	if r.OnWrite != nil {
		r.OnWrite(r.Body.Len())
	}
	return len(p), nil
}

func (r *Recorder) Flush() {
	r.lock()
	defer r.unlock()
	if r.Returned {
		r.After = append(r.After, "Flush")
	}
	if r.Code == 0 {
		r.writeHeaderLocked(200, false)
	}
	r.Flushes++
	r.Events = append(r.Events, recEvent{Kind: 'F', BodyLen: r.Body.Len()})
}

// Finish applies the end-of-response framing checks.
func (r *Recorder) Finish() {
	r.lock()
	defer r.unlock()
	r.Returned = true
	if r.Code == 0 {
		// net/http writes an implicit 200 when the handler returns
		r.writeHeaderLocked(200, false)
		r.HeadWrites = 0
	}
	if r.declared >= 0 && int64(r.Body.Len()) != r.declared && !r.IsHead && bodyAllowed(r.Code) {
		r.fault(fmt.Sprintf("declared Content-Length %d but wrote %d bytes", r.declared, r.Body.Len()))
	}
}

// Trailers reproduces net/http's trailer rules: keys with http.TrailerPrefix set at
// any time, and keys announced in the Trailer header before the head was written
// whose values are present when the handler returns.
func (r *Recorder) Trailers() http.Header {
	out := http.Header{}
	for k, v := range r.hdr {
		if strings.HasPrefix(k, http.TrailerPrefix) {
			name := textproto.CanonicalMIMEHeaderKey(strings.TrimPrefix(k, http.TrailerPrefix))
			out[name] = append(out[name], v...)
		}
	}
	if r.Snap != nil {
		for _, line := range r.Snap.Values("Trailer") {
			for _, k := range strings.Split(line, ",") {
				k = textproto.CanonicalMIMEHeaderKey(strings.TrimSpace(k))
				if k == "" {
					continue
				}
				if v, ok := r.hdr[k]; ok {
					if _, dup := out[k]; !dup {
						out[k] = append([]string(nil), v...)
					}
				}
			}
		}
	}
	return out
}

// HeadersSent returns the headers a client sees (snapshot at head time).
func (r *Recorder) HeadersSent() http.Header {
	if r.Snap == nil {
		return http.Header{}
	}
	return r.Snap
}

// noFlushRecorder hides the Flusher.
type noFlushRecorder struct{ rec *Recorder }

func (n noFlushRecorder) Header() http.Header         { return n.rec.Header() }
func (n noFlushRecorder) Write(p []byte) (int, error) { return n.rec.Write(p) }
func (n noFlushRecorder) WriteHeader(c int)           { n.rec.WriteHeader(c) }

// ---------------------------------------------------------------------------

// ScriptBody is the client's request body: a byte string delivered according to a
// read schedule, optionally ending in a transport error.
type ScriptBody struct {
	Data     []byte
	Chunks   []int // maximum size of successive reads; afterwards unlimited
	EndErr   error // returned once the data is exhausted (nil = io.EOF)
	EOFWith  bool  // deliver io.EOF together with the final bytes
	pos      int
	idx      int
	Reads    int
	Closed   bool
	Returned *bool
	After    int
	Gate     func(pos int, n int) // called before releasing bytes [pos,pos+n) (C16)
	OnEOF    func()               // called once when the end of the body is reached (net/http fills in request trailers then)
	eofDone  bool
	Lock     *sync.Mutex
}

func (b *ScriptBody) Read(p []byte) (int, error) {
	if b.Lock != nil {
		b.Lock.Lock()
		defer b.Lock.Unlock()
	}
	b.Reads++
	if b.Returned != nil && *b.Returned {
		b.After++
	}
	if b.Closed {
		return 0, http.ErrBodyReadAfterClose
	}
	if len(p) == 0 {
		return 0, nil
	}
	if b.pos >= len(b.Data) {
		if b.EndErr != nil {
			return 0, b.EndErr
		}
		if b.OnEOF != nil && !b.eofDone {
			b.eofDone = true
			b.OnEOF()
		}
		return 0, io.EOF
	}
	n := len(b.Data) - b.pos
	if n > len(p) {
		n = len(p)
	}
	if b.idx < len(b.Chunks) {
		c := b.Chunks[b.idx]
		b.idx++
		if c < 0 {
			// "nothing happened": a zero count with a nil error, which callers must not take for the end
			return 0, nil
		}
		if c > 0 && c < n {
			n = c
		}
	}
	if b.Gate != nil {
		b.Gate(b.pos, n)
	}
	copy(p, b.Data[b.pos:b.pos+n])
	b.pos += n
	if b.pos >= len(b.Data) && b.EOFWith && b.EndErr == nil {
		if b.OnEOF != nil && !b.eofDone {
			b.eofDone = true
			b.OnEOF()
		}
		return n, io.EOF
	}
	return n, nil
}

func (b *ScriptBody) Close() error {
	if b.Lock != nil {
		b.Lock.Lock()
		defer b.Lock.Unlock()
	}
	b.Closed = true
	return nil
}

func (b *ScriptBody) Consumed() int { return b.pos }
