package main

import (
	"fmt"
	"math/rand/v2"
	"net/http"
	"net/textproto"
	"reflect"
	"strings"
)

func init() {
	register(&Property{
		ID:    "C05",
		Level: "exploration",
		Rule: "scenario(i) as in C01 with random application header/trailer sets (mixed-case tokens outside the reserved namespaces, 1..3 values, -bin keys padded/unpadded, " +
			"keys used as both header and trailer, gRPC backends that send grpc-message / grpc-status-details-bin next to grpc-status 0, Trailer-declared (names spelled as set, lower case or upper case) and http.TrailerPrefix styles) on success and error outcomes; oracle = per-key ordered value equality " +
			"client->backend and backend->client, trailers in the position the client's protocol defines and nowhere else (no left-over Trailer- header), no protocol status key among application metadata. " +
			"non-trivial = at least one trailer and the protocols differ; distinct by (cell, outcome kind, header/trailer counts, declaration style)",
		Assume: []string{"header names compared case-insensitively, values exactly", "control-header namespaces: grpc-*, connect-*, trailer-*, content-*, accept-encoding, te, trailer"},
		N:      func(t string) int { return tierN(t, 20000, 300000) },
		Run:    runC05,
		MinimaFor: func(t string) map[string]int {
			return map[string]int{"with-trailers-converted": tierN(t, 3000, 45000)}
		},
	})
}

func runC05(c *Ctx, i int, r *rand.Rand) {
	s := genScenario(r, ScenOpts{Headers: true}, fmt.Sprintf("mk%d", i))
	if chance(r, 25) && len(s.Script.Headers) > 0 {
		// same key as header and as trailer
		for k, v := range s.Script.Headers {
			s.Script.Trailers[k] = append([]string{"trailer-side"}, v...)
			break
		}
	}
	e, err := runRPC(s.Cfg, s.Req, s.Script, r, &execOpts{Chunks: chunkPlan(r)})
	if err != nil {
		c.Violate(i, "harness/build", err.Error())
		return
	}
	c.Eval()
	if i < 3 {
		c.Sample(map[string]any{"case": i, "cell": s.Cell(), "req_headers": s.Req.App, "resp_headers": s.Script.Headers, "trailers": s.Script.Trailers, "describe": e.Describe()})
	}
	checkC05(c, i, s, e)
	checkLeak(c, i, s, e)
}

func hget(h http.Header, k string) []string { return h[textproto.CanonicalMIMEHeaderKey(k)] }

func checkC05(c *Ctx, i int, s *Scenario, e *Exec) {
	if e.Panic != nil {
		return
	}
	bo := e.Backend.Obs
	o := e.Out
	if bo.Invocations == 0 {
		return
	}
	feat := fmt.Sprintf("%s->%s", s.Req.Form, bo.target())
	for k, v := range s.Req.App {
		if got := hget(bo.Header, k); !reflect.DeepEqual(got, v) {
			c.Violate(i, "request-header-altered/"+feat, fmt.Sprintf("request header %s: sent %q, backend saw %q\n%s", k, v, got, e.Describe()))
		}
	}
	if o.Kind == "httperror" || len(o.Malformed) > 0 {
		return // C03's business; metadata position is undefined for an invalid response
	}
	if s.Script.Bare != nil {
		return
	}
	trailersExpected := s.Script.Trailers
	headersExpected := s.Script.Headers
	if bo.Proto == "rest" {
		trailersExpected = nil // the scripted REST backend has no trailers
	}
	nsent := len(s.Script.Msgs)
	if s.Script.Err != nil && s.Script.ErrAfter < nsent {
		nsent = s.Script.ErrAfter
	}
	if (bo.Proto == "grpc" || bo.Proto == "grpcweb") && s.Script.Err != nil && s.Script.TrailersOnly && nsent == 0 {
		// trailers-only: the backend itself put headers and trailers into one head, so their
		// split is unknowable; every value set must still arrive, in either position.
		for k, v := range trailersExpected {
			if !reflect.DeepEqual(hget(o.Headers, k), v) && !reflect.DeepEqual(hget(o.Trailers, k), v) {
				c.Violate(i, "trailers-only-metadata-lost/"+feat, fmt.Sprintf("metadata %s=%q of a trailers-only backend response not found (headers %q, trailers %q)\n%s", k, v, hget(o.Headers, k), hget(o.Trailers, k), e.Describe()))
			}
		}
		for k, v := range headersExpected {
			if _, over := trailersExpected[k]; over {
				continue
			}
			if !reflect.DeepEqual(hget(o.Headers, k), v) && !reflect.DeepEqual(hget(o.Trailers, k), v) {
				c.Violate(i, "trailers-only-metadata-lost/"+feat, fmt.Sprintf("metadata %s=%q of a trailers-only backend response not found (headers %q, trailers %q)\n%s", k, v, hget(o.Headers, k), hget(o.Trailers, k), e.Describe()))
			}
		}
		return
	}
	// REST clients have no trailers; their protocol defines no position for them
	for k, v := range headersExpected {
		want := v
		got := hget(o.Headers, k)
		if s.Req.Form == FGRPC || s.Req.Form == FGRPCWeb {
			// trailers-only responses legitimately merge both sets in the head
			if _, both := trailersExpected[k]; both && len(e.Rec.Body.Bytes()) == 0 && len(got) > len(want) {
				continue
			}
		}
		if !reflect.DeepEqual(got, want) {
			_, alsoTrailer := trailersExpected[k]
			buffered := s.Req.Form == FConnectUnary || s.Req.Form == FConnectGet || s.Req.Form == FREST
			if alsoTrailer && s.Script.DeclareTrailers && buffered && bo.Proto == "grpc" {
				c.Violate(i, "header-lost-when-same-key-is-a-declared-trailer/buffered-client", fmt.Sprintf("response header %s: handler set %q before WriteHeader and (declared in Trailer) a trailer of the same name afterwards; client saw header %q\n%s", k, want, got, e.Describe()))
				continue
			}
			c.Violate(i, "response-header-altered/"+feat, fmt.Sprintf("response header %s: handler set %q, client saw %q\n%s", k, want, got, e.Describe()))
		}
	}
	if s.Req.Form == FREST {
		return
	}
	if len(trailersExpected) > 0 && bo.target() != s.Req.Form.Protocol() {
		c.Count("with-trailers-converted")
		c.Nontrivial(fmt.Sprintf("%s|%s|%d|%d|%v", s.Cell(), o.Kind, len(headersExpected), len(trailersExpected), s.Script.DeclareTrailers))
	}
	for k, v := range trailersExpected {
		got := hget(o.Trailers, k)
		if !reflect.DeepEqual(got, v) {
			// gRPC trailers-only: trailers travel in the head together with the headers of the same key
			if hv, both := headersExpected[k]; both && reflect.DeepEqual(got, append(append([]string{}, hv...), v...)) {
				continue
			}
			c.Violate(i, "trailer-altered-or-misplaced/"+feat, fmt.Sprintf("trailer %s: handler set %q, client found %q in the position its protocol defines (headers: %q)\n%s", k, v, got, hget(o.Headers, k), e.Describe()))
		}
	}
	if s.Req.Form != FConnectUnary && s.Req.Form != FConnectGet {
		// a trailer belongs in the client protocol's own position only: a left-over "Trailer-"-prefixed header is the
		// Connect unary position and means nothing to any other client
		for k := range trailersExpected {
			if got := hget(o.Headers, "Trailer-"+k); len(got) > 0 {
				c.Violate(i, "trailer-left-in-connect-unary-position/"+feat, fmt.Sprintf("trailer %s also visible to a %s client as header Trailer-%s=%q\n%s", k, s.Req.Form, k, got, e.Describe()))
			}
		}
	}
	for k := range o.Trailers {
		lk := strings.ToLower(k)
		if _, ok := trailersExpected[textproto.CanonicalMIMEHeaderKey(k)]; ok {
			continue
		}
		if strings.HasPrefix(lk, "x-trail") || strings.HasPrefix(lk, "x-resp") {
			if _, isHdr := headersExpected[textproto.CanonicalMIMEHeaderKey(k)]; isHdr && (s.Req.Form == FGRPC || s.Req.Form == FGRPCWeb) && e.Rec.Body.Len() == 0 {
				continue
			}
			c.Violate(i, "unexpected-trailer/"+feat, fmt.Sprintf("client sees trailer %s=%q that the handler never set as trailer\n%s", k, o.Trailers[k], e.Describe()))
		}
	}
}

var statusKeys = []string{"Grpc-Status", "Grpc-Message", "Grpc-Status-Details-Bin"}

// checkLeak: protocol status keys of the backend's protocol must not be visible to the client outside
// the place the client's own protocol defines. Cheap, so it runs over several corpora (C03, C04, C05, C09).
func checkLeak(c *Ctx, i int, s *Scenario, e *Exec) {
	if e.Panic != nil || e.Rec == nil {
		return
	}
	form := s.Req.Form
	feat := fmt.Sprintf("%s<-%s", form, orNone(e.Backend.Obs.target()))
	h := e.Rec.HeadersSent()
	tr := e.Rec.Trailers()
	grpcClient := form == FGRPC || form == FGRPCWeb
	for _, k := range statusKeys {
		if !grpcClient {
			if v := hget(h, k); len(v) > 0 {
				c.Violate(i, "status-key-leak/header/"+feat, fmt.Sprintf("%s=%q visible as response header to a %s client\n%s", k, v, form, e.Describe()))
			}
			if v := hget(h, "Trailer-"+k); len(v) > 0 {
				c.Violate(i, "status-key-leak/trailer-prefixed-header/"+feat, fmt.Sprintf("Trailer-%s=%q visible to a %s client\n%s", k, v, form, e.Describe()))
			}
		}
		if form != FGRPC {
			if v := hget(tr, k); len(v) > 0 {
				c.Violate(i, "status-key-leak/http-trailer/"+feat, fmt.Sprintf("%s=%q sent as HTTP trailer to a %s client\n%s", k, v, form, e.Describe()))
			}
		}
	}
	if form == FConnectStream && e.Out != nil {
		for _, k := range statusKeys {
			if v := hget(e.Out.Trailers, k); len(v) > 0 {
				c.Violate(i, "status-key-leak/end-stream-metadata/"+feat, fmt.Sprintf("%s=%q in end-of-stream metadata\n%s", k, v, e.Describe()))
			}
		}
	}
	if !strings.HasPrefix(form.Protocol(), "connect") {
		for k := range h {
			if strings.HasPrefix(k, "Connect-") {
				c.Violate(i, "status-key-leak/connect-header/"+feat, fmt.Sprintf("%s=%q visible to a %s client\n%s", k, h[k], form, e.Describe()))
			}
		}
	}
}
