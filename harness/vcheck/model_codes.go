package main

// Published code tables (Connect protocol spec, gRPC HTTP/2 spec, google.rpc.Code).

import (
	"encoding/base64"
	"fmt"
	"strings"
)

var codeNames = []string{
	"ok", "canceled", "unknown", "invalid_argument", "deadline_exceeded", "not_found", "already_exists",
	"permission_denied", "resource_exhausted", "failed_precondition", "aborted", "out_of_range",
	"unimplemented", "internal", "unavailable", "data_loss", "unauthenticated",
}

func codeFromName(s string) (int, bool) {
	for i, n := range codeNames {
		if n == s && i > 0 {
			return i, true
		}
	}
	return 0, false
}

func codeName(c int) string {
	if c >= 0 && c < len(codeNames) {
		return codeNames[c]
	}
	return fmt.Sprintf("code_%d", c)
}

// RPC code -> HTTP status (Connect spec "Error codes" table; same numbers in google.rpc.Code comments).
var httpFromCode = map[int]int{
	1: 499, 2: 500, 3: 400, 4: 504, 5: 404, 6: 409, 7: 403, 8: 429, 9: 400,
	10: 409, 11: 400, 12: 501, 13: 500, 14: 503, 15: 500, 16: 401,
}

// HTTP status -> RPC code (Connect spec "HTTP to error code"; gRPC "HTTP to gRPC Status Code Mapping").
func codeFromHTTP(status int) int {
	switch status {
	case 400:
		return 13
	case 401:
		return 16
	case 403:
		return 7
	case 404:
		return 12
	case 429, 502, 503, 504:
		return 14
	}
	return 2
}

// grpc-message percent-encoding per the gRPC HTTP/2 spec:
// Percent-Byte-Unencoded = 1*( %x20-%x24 / %x26-%x7E )
func grpcPctEncode(s string) string {
	var sb strings.Builder
	for i := 0; i < len(s); i++ {
		c := s[i]
		if c >= 0x20 && c <= 0x7e && c != '%' {
			sb.WriteByte(c)
		} else {
			fmt.Fprintf(&sb, "%%%02X", c)
		}
	}
	return sb.String()
}

// grpcPctDecode is strict: raw bytes outside the unencoded set or broken escapes are errors.
func grpcPctDecode(s string) (string, error) {
	var sb strings.Builder
	for i := 0; i < len(s); i++ {
		c := s[i]
		switch {
		case c == '%':
			if i+2 >= len(s) {
				return "", fmt.Errorf("truncated escape at %d", i)
			}
			h, ok1 := unhexC(s[i+1])
			l, ok2 := unhexC(s[i+2])
			if !ok1 || !ok2 {
				return "", fmt.Errorf("bad escape at %d", i)
			}
			sb.WriteByte(h<<4 | l)
			i += 2
		case c >= 0x20 && c <= 0x7e:
			sb.WriteByte(c)
		default:
			return "", fmt.Errorf("raw byte 0x%02x at %d must be percent-encoded", c, i)
		}
	}
	return sb.String(), nil
}

func unhexC(c byte) (byte, bool) {
	switch {
	case c >= '0' && c <= '9':
		return c - '0', true
	case c >= 'a' && c <= 'f':
		return c - 'a' + 10, true
	case c >= 'A' && c <= 'F':
		return c - 'A' + 10, true
	}
	return 0, false
}

// decodeBinHeader accepts padded and unpadded standard base64 (gRPC "-bin" rule).
func decodeBinHeader(s string) ([]byte, error) {
	if b, err := base64.RawStdEncoding.DecodeString(strings.TrimRight(s, "=")); err == nil {
		return b, nil
	}
	return base64.StdEncoding.DecodeString(s)
}
