package main

import (
	"bytes"
	"math/rand/v2"
)

// Targeted compression faults. Random byte mutation of a whole body rarely leaves an intact envelope around a payload that
// fails only inside the decompressor; these builders do exactly that, because those are the paths on which pooled
// (de)compressors and buffers are released from error branches.

// corruptGzip: a payload with a valid gzip header that fails while inflating, or fails its checksum.
func corruptGzip(r *rand.Rand, plain []byte) []byte {
	good := compressWith("gzip", plain)
	switch r.IntN(4) {
	case 0:
		return append(append([]byte(nil), good[:10]...), []byte("garbage-after-a-valid-gzip-header")...)
	case 1:
		out := append([]byte(nil), good...)
		if len(out) > 8 {
			out[len(out)-5] ^= 0x40 // CRC32 trailer
		}
		return out
	case 2:
		if len(good) > 14 {
			return append([]byte(nil), good[:len(good)-7]...) // truncated deflate stream / trailer
		}
		return good[:len(good)/2]
	}
	out := append([]byte(nil), good...)
	if len(out) > 12 {
		out[10+r.IntN(len(out)-10)] ^= byte(1 << r.IntN(8))
	}
	return out
}

// gzipBomb: a well-formed gzip stream of n zero bytes (tiny on the wire).
func gzipBomb(n int) []byte {
	return compressWith("gzip", bytes.Repeat([]byte{0}, n))
}

// hostileCompressedRequest rewrites the request of s so that its first message is declared gzip and either does not
// inflate (kind "corrupt") or inflates past limit ("bomb"). Returns the raw body, or nil when the form cannot carry it.
func hostileCompressedRequest(r *rand.Rand, s *Scenario, kind string, limit int) []byte {
	creq := s.Req
	if creq.Form == FConnectGet || len(creq.Msgs) == 0 {
		return nil
	}
	creq.Comp = "gzip"
	creq.FrameComp = repeatBool(true, len(creq.Msgs))
	wasRaw := creq.UseRawBody
	creq.UseRawBody = false
	built, err := creq.Build(r)
	creq.UseRawBody = wasRaw
	if err != nil {
		return nil
	}
	bad := func(plain []byte) []byte {
		if kind == "bomb" {
			return gzipBomb(limit + 1 + r.IntN(3*limit+1))
		}
		return corruptGzip(r, plain)
	}
	if !creq.Form.Enveloped() {
		plain, err := decompressWith("gzip", built.Raw)
		if err != nil {
			return nil
		}
		return bad(plain)
	}
	frames, rest := parseFrames(built.Raw)
	if len(frames) == 0 || len(rest) > 0 {
		return nil
	}
	victim := r.IntN(len(frames))
	var out []byte
	for i, f := range frames {
		p := f.Payload
		if i == victim {
			plain, _ := decompressWith("gzip", p)
			p = bad(plain)
			f.Flags |= 1
		}
		out = appendFrame(out, f.Flags, p)
	}
	return out
}

// hostileCompressedResponse makes the backend answer with one message that is declared compressed and does not
// inflate, or inflates past limit.
func hostileCompressedResponse(r *rand.Rand, sc *BackendScript, kind string, limit int) {
	sc.Comp = "gzip"
	sc.HostilePayload = corruptGzip(r, []byte("{}"))
	if kind == "bomb" {
		sc.HostilePayload = gzipBomb(limit + 1 + r.IntN(3*limit+1))
	}
}
