package main

import (
	"encoding/binary"
	"fmt"
	"io"
	"math/rand/v2"
	"strings"

	"google.golang.org/protobuf/proto"
)

func init() {
	register(&Property{
		ID:    "C09",
		Level: "fault_enumeration",
		Rule: "for each base scenario b (PCG(seed,C09,b): config x form x method x map-free messages, fault-aware backend that refuses invalid requests like a real server) " +
			"every fault of these kinds is injected, one per execution: request cut at EVERY byte offset (transport error; clean end-of-stream for offsets strictly inside a frame); " +
			"envelope length over/under-stated per frame (responses: by 1..8 and by 1000); gRPC backend body cut inside a frame followed by successful trailers; Content-Length over/under-stated on un-enveloped bodies; envelope flag byte set to every value 0..255 outside the protocol's valid set, " +
			"per frame, both directions; backend response cut at EVERY byte offset (enveloped backends; un-enveloped ones when they declared Content-Length); every single-bit flip of a gzip payload (both directions); " +
			"undecodable payloads. oracle: client outcome is not OK; complete messages decoded by the backend are a prefix of what the client finished sending; the response is a well-formed error for " +
			"gRPC/Connect-unary/REST clients (in-band-terminated forms may be cut short on the re-framing path; counted); ServeHTTP returns. Benign gzip flips (identical inflate result) are excluded by reference. " +
			"non-trivial = the fault lands strictly inside an envelope, payload or trailer frame; distinct by (base, fault kind, offset/value)",
		Assume: []string{"a backend that sees an invalid request or a body read error fails the RPC (scripted with FailOnBad)", "truncating an un-enveloped body at a clean end of stream without a declared length is not detectable by anyone and is not injected"},
		N:      func(t string) int { return tierN(t, 120, 1500) },
		Run:    runC09,
		MinimaFor: func(t string) map[string]int {
			return map[string]int{"fault:req-cut-transport": tierN(t, 3000, 40000), "fault:resp-cut": tierN(t, 2000, 30000), "fault:req-flag": tierN(t, 2000, 30000),
				"fault:resp-flag": tierN(t, 1500, 20000), "fault:bitflip-req": tierN(t, 300, 4000), "fault:bitflip-resp": tierN(t, 300, 4000)}
		},
	})
}

type frameSpan struct{ start, plen int }

func frameSpans(b []byte) []frameSpan {
	var out []frameSpan
	pos := 0
	for pos+5 <= len(b) {
		n := int(binary.BigEndian.Uint32(b[pos+1 : pos+5]))
		if pos+5+n > len(b) {
			break
		}
		out = append(out, frameSpan{pos, n})
		pos += 5 + n
	}
	return out
}

func insideUnit(spans []frameSpan, k int) bool {
	for _, f := range spans {
		if k > f.start && k < f.start+5+f.plen {
			return true
		}
	}
	return false
}

// completeBefore: number of frames entirely contained in b[:k].
func completeBefore(spans []frameSpan, k int) int {
	n := 0
	for _, f := range spans {
		if f.start+5+f.plen <= k {
			n++
		}
	}
	return n
}

type c09Fault struct {
	kind     string
	desc     string
	raw      []byte // request body (nil = unchanged)
	endErr   error
	declLen  int64 // >=0: declared Content-Length
	script   func(s *BackendScript)
	maxMsgs  int // request-side: messages the client finished sending (-1 = all)
	inBand   bool
	reqFault bool
}

func runC09(c *Ctx, i int, r *rand.Rand) {
	s, raw, err := c08Base(r, false)
	if err != nil {
		c.Violate(i, "harness/build", err.Error())
		return
	}
	// keep streams short enough to enumerate every offset
	if len(raw) > 600 {
		return
	}
	s.Script.FailOnBad = true
	s.Script.Err, s.Script.Bare = nil, nil
	if s.Cfg.Limit == 0 || s.Cfg.Limit > 4<<20 {
		// corrupted and over-stated lengths announce up to 4 GiB, and under the default limit the transcoder may
		// reserve what is announced: a finite limit keeps the harness's own memory bounded (C10 judges reservations)
		cfg := *s.Cfg
		cfg.Limit = 4 << 20
		s.Cfg = &cfg
	}
	if s.Script.Comp == "zz" {
		s.Script.Comp = "gzip"
	}
	run := func(f *c09Fault) (*Exec, error) {
		creq := *s.Req
		creq.UseRawBody, creq.RawBody = true, raw
		if f != nil && f.raw != nil {
			creq.RawBody = f.raw
		}
		script := *s.Script
		if f != nil && f.script != nil {
			f.script(&script)
		}
		eo := &execOpts{}
		if f != nil {
			eo.EndErr = f.endErr
			if f.declLen >= 0 {
				dl := f.declLen
				eo.PreRun = func(e *Exec) {
					e.Built.Req.ContentLength = dl
					e.Built.Req.Header.Set("Content-Length", fmt.Sprint(dl))
				}
			}
		}
		return runRPC(s.Cfg, &creq, &script, r, eo)
	}
	ref, err := run(nil)
	if err != nil || ref.Panic != nil {
		return
	}
	c.Eval()
	if !ref.Out.OK() || ref.Backend.Obs.Invocations != 1 {
		c.Count("base-not-ok")
		return // faults are injected only into executions that succeed without them
	}
	if i < 2 {
		c.Sample(map[string]any{"base": i, "cell": s.Cell(), "describe": ref.Describe()})
	}
	bo := ref.Backend.Obs
	respBody := append([]byte(nil), bo.Written...)
	reqEnveloped := s.Req.Form.Enveloped()
	respEnveloped := bo.Proto == "grpc" || bo.Proto == "grpcweb" || bo.Proto == "connect-stream"
	clientInBand := s.Req.Form == FConnectStream || s.Req.Form == FGRPCWeb
	reqSpans := frameSpans(raw)
	respSpans := frameSpans(respBody)
	var faults []*c09Fault
	add := func(f *c09Fault) {
		if f.declLen == 0 && f.kind != "req-content-length" {
			f.declLen = -1
		}
		faults = append(faults, f)
	}
	// ---- request cuts at every offset
	for k := 0; k < len(raw); k++ {
		max := -1
		if reqEnveloped {
			max = completeBefore(reqSpans, k)
		} else {
			max = 0
		}
		add(&c09Fault{kind: "req-cut-transport", desc: fmt.Sprintf("request body cut after %d of %d bytes, transport error", k, len(raw)), raw: raw[:k:k], endErr: io.ErrUnexpectedEOF, maxMsgs: max, reqFault: true, declLen: -1})
		if reqEnveloped && insideUnit(reqSpans, k) {
			add(&c09Fault{kind: "req-cut-clean", desc: fmt.Sprintf("request stream ends cleanly after %d of %d bytes (inside a frame)", k, len(raw)), raw: raw[:k:k], maxMsgs: max, reqFault: true, declLen: -1})
		}
	}
	if reqEnveloped {
		for fi, f := range reqSpans {
			for _, delta := range []int{1, 7, 1000, -1} {
				if f.plen+delta < 0 {
					continue
				}
				mod := append([]byte(nil), raw...)
				binary.BigEndian.PutUint32(mod[f.start+1:], uint32(f.plen+delta))
				if delta < 0 && fi == len(reqSpans)-1 && f.plen+delta >= 0 {
					// the last frame now leaves stray bytes behind: they cannot form a frame
				}
				add(&c09Fault{kind: "req-length-lie", desc: fmt.Sprintf("frame %d declares %d payload bytes instead of %d", fi, f.plen+delta, f.plen), raw: mod, maxMsgs: fi, reqFault: true, declLen: -1})
			}
			for v := 0; v < 256; v++ {
				if v == 0 || v == 1 {
					continue
				}
				mod := append([]byte(nil), raw...)
				mod[f.start] = byte(v)
				add(&c09Fault{kind: "req-flag", desc: fmt.Sprintf("request frame %d flag byte 0x%02x", fi, v), raw: mod, maxMsgs: fi, reqFault: true, declLen: -1})
			}
			if s.Req.Comp == "gzip" && raw[f.start] == 1 && f.plen > 0 && f.plen < 120 {
				orig, _ := gunzip(raw[f.start+5 : f.start+5+f.plen])
				for bit := 0; bit < f.plen*8; bit++ {
					mod := append([]byte(nil), raw...)
					mod[f.start+5+bit/8] ^= 1 << (bit % 8)
					if dec, err := gunzip(mod[f.start+5 : f.start+5+f.plen]); err == nil && string(dec) == string(orig) {
						c.Count("benign-bitflip")
						continue
					}
					add(&c09Fault{kind: "bitflip-req", desc: fmt.Sprintf("bit %d of the gzip payload of request frame %d flipped", bit, fi), raw: mod, maxMsgs: fi, reqFault: true, declLen: -1})
				}
			}
			if f.plen > 2 {
				mod := append([]byte(nil), raw...)
				for k := 0; k < f.plen; k++ {
					mod[f.start+5+k] = 0xff
				}
				add(&c09Fault{kind: "req-garbage", desc: fmt.Sprintf("payload of request frame %d replaced by 0xff bytes", fi), raw: mod, maxMsgs: fi, reqFault: true, declLen: -1})
			}
		}
	} else if len(raw) > 0 && s.Req.Form != FConnectGet {
		for _, delta := range []int64{1, 10} {
			// net/http reports a body shorter than the declared length as io.ErrUnexpectedEOF
			add(&c09Fault{kind: "req-content-length", desc: fmt.Sprintf("Content-Length %d for a %d-byte body", int64(len(raw))+delta, len(raw)), declLen: int64(len(raw)) + delta, endErr: io.ErrUnexpectedEOF, maxMsgs: 0, reqFault: true})
		}
		if s.Req.Comp == "gzip" && len(raw) < 120 {
			orig, _ := gunzip(raw)
			for bit := 0; bit < len(raw)*8; bit++ {
				mod := append([]byte(nil), raw...)
				mod[bit/8] ^= 1 << (bit % 8)
				if dec, err := gunzip(mod); err == nil && string(dec) == string(orig) {
					c.Count("benign-bitflip")
					continue
				}
				add(&c09Fault{kind: "bitflip-req", desc: fmt.Sprintf("bit %d of the gzip request body flipped", bit), raw: mod, maxMsgs: 0, reqFault: true, declLen: -1})
			}
		}
	}
	// ---- response side
	if respEnveloped && len(respBody) > 0 && len(respBody) <= 600 {
		for k := 1; k < len(respBody); k++ {
			k := k
			if bo.Proto == "grpc" && !insideUnit(respSpans, k) {
				// gRPC: handler returning after whole frames without trailers is also a fault (no grpc-status)
			}
			add(&c09Fault{kind: "resp-cut", desc: fmt.Sprintf("backend returns after writing %d of %d body bytes", k, len(respBody)), script: func(sc *BackendScript) { sc.CutAt = k }, declLen: -1, inBand: clientInBand})
			if bo.Proto == "grpc" && insideUnit(respSpans, k) {
				// the body stops inside a frame, yet the backend's trailers claim success
				add(&c09Fault{kind: "resp-cut-ok-trailers", desc: fmt.Sprintf("gRPC backend writes %d of %d body bytes and then trailers with grpc-status 0", k, len(respBody)), script: func(sc *BackendScript) { sc.CutAt, sc.EndAfterCut = k, true }, declLen: -1, inBand: clientInBand})
			}
		}
		valid := map[string]func(v int) bool{
			"grpc":           func(v int) bool { return v == 0 || v == 1 },
			"grpcweb":        func(v int) bool { return v&0x7e == 0 },
			"connect-stream": func(v int) bool { return v&^3 == 0 },
		}[bo.Proto]
		for fi, f := range respSpans {
			for v := 0; v < 256; v++ {
				if valid(v) {
					continue
				}
				mod := append([]byte(nil), respBody...)
				mod[f.start] = byte(v)
				add(&c09Fault{kind: "resp-flag", desc: fmt.Sprintf("response frame %d flag byte 0x%02x (%s backend)", fi, v, bo.Proto), script: func(sc *BackendScript) { sc.UseRaw, sc.RawBody, sc.RawComplete = true, mod, true }, declLen: -1, inBand: clientInBand})
			}
			if bo.UsedComp == "gzip" && respBody[f.start]&1 == 1 && f.plen > 0 && f.plen < 120 {
				orig, _ := gunzip(respBody[f.start+5 : f.start+5+f.plen])
				for bit := 0; bit < f.plen*8; bit++ {
					mod := append([]byte(nil), respBody...)
					mod[f.start+5+bit/8] ^= 1 << (bit % 8)
					if dec, err := gunzip(mod[f.start+5 : f.start+5+f.plen]); err == nil && string(dec) == string(orig) {
						c.Count("benign-bitflip")
						continue
					}
					add(&c09Fault{kind: "bitflip-resp", desc: fmt.Sprintf("bit %d of the gzip payload of response frame %d flipped", bit, fi), script: func(sc *BackendScript) { sc.UseRaw, sc.RawBody, sc.RawComplete = true, mod, true }, declLen: -1, inBand: clientInBand})
				}
			}
			for _, delta := range []int{1, 2, 3, 4, 5, 6, 7, 8, 1000} {
				mod := append([]byte(nil), respBody...)
				binary.BigEndian.PutUint32(mod[f.start+1:], uint32(f.plen+delta))
				add(&c09Fault{kind: "resp-length-lie", desc: fmt.Sprintf("response frame %d declares %d payload bytes instead of %d", fi, f.plen+delta, f.plen), script: func(sc *BackendScript) { sc.UseRaw, sc.RawBody, sc.RawComplete = true, mod, true }, declLen: -1, inBand: clientInBand})
			}
		}
	} else if !respEnveloped && len(respBody) > 1 && len(respBody) <= 600 {
		for k := 1; k < len(respBody); k++ {
			k := k
			add(&c09Fault{kind: "resp-cut", desc: fmt.Sprintf("backend declares Content-Length %d but returns after %d bytes", len(respBody), k), script: func(sc *BackendScript) { sc.DeclLen, sc.CutAt = true, k }, declLen: -1})
		}
		for _, delta := range []int{1, 100, -1, -3, -len(respBody) / 2} {
			delta := delta
			if delta == 0 || len(respBody)+delta < 0 {
				continue
			}
			add(&c09Fault{kind: "resp-content-length", desc: fmt.Sprintf("backend declares Content-Length %d for a %d-byte body", len(respBody)+delta, len(respBody)), script: func(sc *BackendScript) { sc.DeclLen, sc.LenDelta = true, delta }, declLen: -1})
		}
	}
	pt := passThrough(s, bo)
	for _, f := range faults {
		e, err := run(f)
		if err != nil {
			continue
		}
		c.Eval()
		c.Count("fault:" + f.kind)
		c.Nontrivial(fmt.Sprintf("%d|%s", i, f.desc))
		feat := fmt.Sprintf("%s/%s->%s", f.kind, s.Req.Form, orNone(bo.target()))
		if pt {
			feat += "/pass-through"
		}
		detail := func() string {
			return fmt.Sprintf("fault: %s\nfaulted run:\n%sreference (fault-free) run:\n%s", f.desc, e.Describe(), ref.Describe())
		}
		if e.Panic != nil {
			c.Violate(i, "transcoder-panic/"+panicSite(e.Stack)+"/"+f.kind, detail())
			continue
		}
		o := e.Out
		if o.OK() && len(o.Malformed) == 0 {
			c.Violate(i, "fault-surfaced-as-success/"+feat, detail())
			continue
		}
		if o.OK() {
			c.Count("ok-status-but-invalid-response") // a client rejects it; judged below
		}
		if f.reqFault && e.Backend.Obs.Invocations > 0 {
			fbo := e.Backend.Obs
			nOK := 0
			for _, m := range fbo.Msgs {
				if m != nil {
					nOK++
				}
			}
			if f.maxMsgs >= 0 && reqEnveloped && nOK > f.maxMsgs && len(fbo.Bad) == 0 && fbo.ReadErr == nil {
				c.Violate(i, "backend-handed-unsent-message/"+feat, detail())
				continue
			}
			for k, m := range fbo.Msgs {
				if m != nil && k < len(s.Req.Msgs) && f.maxMsgs >= 0 && k < f.maxMsgs && !proto.Equal(m, s.Req.Msgs[k]) {
					c.Violate(i, "backend-handed-altered-message/"+feat, detail())
					break
				}
			}
			if !reqEnveloped && nOK > 0 && len(fbo.Bad) == 0 && fbo.ReadErr == nil && f.kind != "req-content-length" {
				c.Violate(i, "backend-handed-complete-looking-message/"+feat, detail())
				continue
			}
		}
		if len(o.Malformed) > 0 && !pt {
			for _, mf := range o.Malformed {
				switch {
				case strings.Contains(mf, "does not decompress") || strings.Contains(mf, "does not decode") || strings.Contains(mf, "does not match declared"):
					// corruption forwarded untouched on a path that never looks inside payloads; the client detects it
					c.Count("corruption-forwarded-to-client")
				case strings.Contains(mf, "ends inside a frame") && s.Req.Form.Enveloped():
					// bytes of a frame already forwarded cannot be taken back on a streaming response
					c.Count("partial-frame-already-forwarded")
				case f.kind == "resp-length-lie" && s.Req.Form.Enveloped():
					// behind a frame whose length lies, the re-framing path takes the following bytes at face
					// value (it never looks inside payloads): what it forwarded before noticing cannot be taken back
					c.Count("misframed-bytes-already-forwarded")
				case clientInBand && !f.reqFault:
					// in-band terminated forms: the end frame lands behind a partially forwarded frame
					c.Count("in-band-response-cut-short")
				default:
					c.Violate(i, "error-response-not-well-formed/"+feat+"/"+classify(mf), detail())
				}
			}
		}
	}
}

func containsAny(xs []string, sub string) bool {
	for _, x := range xs {
		if strings.Contains(x, sub) {
			return true
		}
	}
	return false
}
