package main

// Reference REST renderer (message -> method/path/query/body) and binder (its
// inverse), written from the google.api.http documentation. Independent of vanguard.

import (
	"encoding/base64"
	"encoding/json"
	"errors"
	"fmt"
	"math"
	"math/rand/v2"
	"net/url"
	"strconv"
	"strings"

	"google.golang.org/protobuf/encoding/protojson"
	"google.golang.org/protobuf/proto"
	"google.golang.org/protobuf/reflect/protoreflect"
)

var errNotCarriable = errors.New("not carriable over this binding")

func isUnreserved(c byte) bool {
	return c == '-' || c == '_' || c == '.' || c == '~' ||
		(c >= '0' && c <= '9') || (c >= 'a' && c <= 'z') || (c >= 'A' && c <= 'Z')
}

// escSeg percent-encodes everything except RFC 3986 unreserved characters.
func escSeg(s string) string {
	var sb strings.Builder
	for i := 0; i < len(s); i++ {
		if isUnreserved(s[i]) {
			sb.WriteByte(s[i])
		} else {
			fmt.Fprintf(&sb, "%%%02X", s[i])
		}
	}
	return sb.String()
}

// unescOnce percent-decodes s once; in multi mode %2F/%2f stays encoded.
func unescOnce(s string, multi bool) (string, error) {
	var sb strings.Builder
	for i := 0; i < len(s); i++ {
		if s[i] != '%' {
			sb.WriteByte(s[i])
			continue
		}
		if i+2 >= len(s) {
			return "", errors.New("truncated escape")
		}
		h, ok1 := unhexC(s[i+1])
		l, ok2 := unhexC(s[i+2])
		if !ok1 || !ok2 {
			return "", errors.New("bad escape")
		}
		if multi && h == 2 && l == 15 {
			sb.WriteString(s[i : i+3])
		} else {
			sb.WriteByte(h<<4 | l)
		}
		i += 2
	}
	return sb.String(), nil
}

func isScalarWKT(md protoreflect.MessageDescriptor) bool {
	switch md.FullName() {
	case "google.protobuf.BoolValue", "google.protobuf.BytesValue", "google.protobuf.DoubleValue",
		"google.protobuf.Duration", "google.protobuf.FieldMask", "google.protobuf.FloatValue",
		"google.protobuf.Int32Value", "google.protobuf.Int64Value", "google.protobuf.StringValue",
		"google.protobuf.Timestamp", "google.protobuf.UInt32Value", "google.protobuf.UInt64Value":
		return true
	}
	return false
}

func fmtFloat(f float64, bits int) string {
	switch {
	case math.IsNaN(f):
		return "NaN"
	case math.IsInf(f, 1):
		return "Infinity"
	case math.IsInf(f, -1):
		return "-Infinity"
	}
	return strconv.FormatFloat(f, 'g', -1, bits)
}

// scalarToParam renders one value as a URL parameter string (JSON scalar form without quotes).
func scalarToParam(fd protoreflect.FieldDescriptor, v protoreflect.Value, r *rand.Rand) (string, error) {
	switch fd.Kind() {
	case protoreflect.BoolKind:
		if v.Bool() {
			return "true", nil
		}
		return "false", nil
	case protoreflect.Int32Kind, protoreflect.Sint32Kind, protoreflect.Sfixed32Kind,
		protoreflect.Int64Kind, protoreflect.Sint64Kind, protoreflect.Sfixed64Kind:
		return strconv.FormatInt(v.Int(), 10), nil
	case protoreflect.Uint32Kind, protoreflect.Fixed32Kind, protoreflect.Uint64Kind, protoreflect.Fixed64Kind:
		return strconv.FormatUint(v.Uint(), 10), nil
	case protoreflect.FloatKind:
		return fmtFloat(v.Float(), 32), nil
	case protoreflect.DoubleKind:
		return fmtFloat(v.Float(), 64), nil
	case protoreflect.StringKind:
		return v.String(), nil
	case protoreflect.BytesKind:
		b := v.Bytes()
		switch r.IntN(3) {
		case 0:
			return base64.StdEncoding.EncodeToString(b), nil
		case 1:
			return base64.URLEncoding.EncodeToString(b), nil
		default:
			return base64.RawURLEncoding.EncodeToString(b), nil
		}
	case protoreflect.EnumKind:
		ev := fd.Enum().Values().ByNumber(v.Enum())
		if ev == nil || r.IntN(4) == 0 {
			return strconv.Itoa(int(v.Enum())), nil
		}
		return string(ev.Name()), nil
	case protoreflect.MessageKind:
		md := fd.Message()
		if !isScalarWKT(md) {
			return "", errNotCarriable
		}
		data, err := protojson.Marshal(v.Message().Interface())
		if err != nil {
			return "", errNotCarriable
		}
		s := string(data)
		if len(s) >= 2 && s[0] == '"' {
			var us string
			us, err = strconv.Unquote(s)
			if err != nil {
				// JSON string escapes Go cannot unquote (e.g.   is fine; surrogates are not produced)
				return "", errNotCarriable
			}
			return us, nil
		}
		return s, nil
	}
	return "", errNotCarriable
}

type kv struct{ k, v string }

// flattenQuery renders every populated field of m (except those in skip) as query parameters.
func flattenQuery(m protoreflect.Message, prefixJSON, prefixProto string, useJSONNames bool, r *rand.Rand, out *[]kv) error {
	var ferr error
	m.Range(func(fd protoreflect.FieldDescriptor, v protoreflect.Value) bool {
		name := string(fd.Name())
		if useJSONNames {
			name = fd.JSONName()
		}
		key := prefixJSON + name
		switch {
		case fd.IsMap():
			ferr = errNotCarriable
			return false
		case fd.IsList():
			if fd.Kind() == protoreflect.MessageKind && !isScalarWKT(fd.Message()) {
				ferr = errNotCarriable
				return false
			}
			l := v.List()
			for i := 0; i < l.Len(); i++ {
				s, err := scalarToParam(fd, l.Get(i), r)
				if err != nil {
					ferr = err
					return false
				}
				*out = append(*out, kv{key, s})
			}
		case fd.Kind() == protoreflect.MessageKind && !isScalarWKT(fd.Message()):
			if fd.Message().FullName() == "google.protobuf.Struct" || fd.Message().FullName() == "google.protobuf.Value" ||
				fd.Message().FullName() == "google.protobuf.ListValue" || fd.Message().FullName() == "google.protobuf.Any" {
				ferr = errNotCarriable
				return false
			}
			sub := v.Message()
			empty := true
			sub.Range(func(protoreflect.FieldDescriptor, protoreflect.Value) bool { empty = false; return false })
			if empty {
				// a present-but-empty sub-message has no query representation
				ferr = errNotCarriable
				return false
			}
			if err := flattenQuery(sub, key+".", "", useJSONNames, r, out); err != nil {
				ferr = err
				return false
			}
		case fd.Kind() == protoreflect.GroupKind:
			ferr = errNotCarriable
			return false
		default:
			s, err := scalarToParam(fd, v, r)
			if err != nil {
				ferr = err
				return false
			}
			*out = append(*out, kv{key, s})
		}
		return true
	})
	return ferr
}

func getPath(m protoreflect.Message, fields []protoreflect.FieldDescriptor) (protoreflect.Message, protoreflect.FieldDescriptor, bool) {
	cur := m
	for _, fd := range fields[:len(fields)-1] {
		if !cur.Has(fd) {
			return nil, nil, false
		}
		cur = cur.Get(fd).Message()
	}
	return cur, fields[len(fields)-1], true
}

func clearPath(m protoreflect.Message, fields []protoreflect.FieldDescriptor) {
	cur := m
	for _, fd := range fields[:len(fields)-1] {
		if !cur.Has(fd) {
			return
		}
		cur = cur.Mutable(fd).Message()
	}
	cur.Clear(fields[len(fields)-1])
}

// pruneEmpty removes present-but-empty singular sub-messages left behind after clearing
// path-bound leaves (they carry no information that a URL could express).
func pruneEmpty(m protoreflect.Message, fields []protoreflect.FieldDescriptor) {
	for n := len(fields) - 1; n >= 1; n-- {
		cur := m
		ok := true
		for _, fd := range fields[:n-1] {
			if !cur.Has(fd) {
				ok = false
				break
			}
			cur = cur.Mutable(fd).Message()
		}
		if !ok {
			return
		}
		fd := fields[n-1]
		if !cur.Has(fd) {
			return
		}
		sub := cur.Get(fd).Message()
		empty := true
		sub.Range(func(protoreflect.FieldDescriptor, protoreflect.Value) bool { empty = false; return false })
		if !empty {
			return
		}
		cur.Clear(fd)
	}
}

// RESTReq is a rendered REST request.
type RESTReq struct {
	Method      string
	RawPath     string
	RawQuery    string
	Body        []byte
	ContentType string
	HasBody     bool
}

type renderChoices struct {
	jsonNames   bool // query keys use JSON names (else proto names)
	plusSpace   bool // encode space in query as '+' (else %20)
	shuffle     bool
	extraQuery  []kv
	customVerb  string // HTTP method to use when the binding's method is "*"
}

func escQuery(s string, plus bool) string {
	var sb strings.Builder
	for i := 0; i < len(s); i++ {
		c := s[i]
		switch {
		case isUnreserved(c):
			sb.WriteByte(c)
		case c == ' ' && plus:
			sb.WriteByte('+')
		default:
			fmt.Fprintf(&sb, "%%%02X", c)
		}
	}
	return sb.String()
}

// varFitsTemplate reports whether value can be captured by the variable's sub-template,
// and returns the raw path text for it.
func renderVar(b *Binding, v TVar, value string) (string, bool) {
	segs := b.Segs[v.Start:]
	if v.End != -1 {
		segs = b.Segs[v.Start:v.End]
	}
	if len(segs) == 1 && segs[0].Kind == segStar {
		if value == "" {
			return "", false // an empty segment is not matched by '*'
		}
		return escSeg(value), true
	}
	parts := strings.Split(value, "/")
	var out []string
	pi := 0
	for si, s := range segs {
		switch s.Kind {
		case segLit:
			if pi >= len(parts) || parts[pi] != s.Lit {
				return "", false
			}
			out = append(out, s.Lit)
			pi++
		case segStar:
			if pi >= len(parts) || parts[pi] == "" {
				return "", false
			}
			if strings.Contains(strings.ToUpper(parts[pi]), "%2F") {
				return "", false
			}
			out = append(out, escSeg(parts[pi]))
			pi++
		case segDStar:
			if si != len(segs)-1 {
				return "", false
			}
			// '**': one or more segments here (the zero-segment case is ambiguous and not rendered)
			if pi >= len(parts) {
				return "", false
			}
			for ; pi < len(parts); pi++ {
				if parts[pi] == "" {
					return "", false // empty segments facing a wildcard are ambiguous; not generated
				}
				if strings.Contains(strings.ToUpper(parts[pi]), "%2F") {
					return "", false
				}
				out = append(out, escSeg(parts[pi]))
			}
		}
	}
	if pi != len(parts) {
		return "", false
	}
	return strings.Join(out, "/"), true
}

// renderREST is the reference renderer: the request a REST client sends for msg under b.
func renderREST(b *Binding, msg proto.Message, r *rand.Rand, ch renderChoices) (*RESTReq, error) {
	work := proto.Clone(msg).ProtoReflect()
	// path
	path := make([]string, 0, len(b.Segs))
	varAt := map[int]TVar{}
	for _, v := range b.Vars {
		varAt[v.Start] = v
	}
	for i := 0; i < len(b.Segs); {
		if v, ok := varAt[i]; ok {
			leafMsg, _, present := getPath(work, v.Fields)
			fd := v.Fields[len(v.Fields)-1]
			if fd.IsList() || fd.IsMap() || (fd.Kind() == protoreflect.MessageKind) || fd.Kind() == protoreflect.GroupKind {
				return nil, errNotCarriable
			}
			var val protoreflect.Value
			if present {
				val = leafMsg.Get(fd)
			} else {
				val = fd.Default()
				if fd.Kind() == protoreflect.EnumKind {
					val = protoreflect.ValueOfEnum(fd.DefaultEnumValue().Number())
				}
			}
			s, err := scalarToParam(fd, val, r)
			if err != nil {
				return nil, err
			}
			raw, ok := renderVar(b, v, s)
			if !ok {
				return nil, errNotCarriable
			}
			if raw != "" {
				path = append(path, raw)
			}
			clearPath(work, v.Fields)
			pruneEmpty(work, v.Fields)
			if v.End == -1 {
				i = len(b.Segs)
			} else {
				i = v.End
			}
			continue
		}
		s := b.Segs[i]
		switch s.Kind {
		case segLit:
			path = append(path, s.Lit)
		default:
			// bare wildcard outside a variable: any non-empty segment
			path = append(path, "w")
		}
		i++
	}
	req := &RESTReq{Method: b.HTTPMethod}
	if req.Method == "*" {
		req.Method = ch.customVerb
		if req.Method == "" {
			req.Method = "POST"
		}
	}
	req.RawPath = "/" + strings.Join(path, "/")
	if b.Verb != "" {
		req.RawPath += ":" + b.Verb
	}
	// body
	switch b.Body {
	case "*":
		data, err := protojson.Marshal(work.Interface())
		if err != nil {
			return nil, errNotCarriable
		}
		if isHTTPBodyMsg(work.Descriptor()) {
			req.Body = work.Get(work.Descriptor().Fields().ByName("data")).Bytes()
			req.ContentType = work.Get(work.Descriptor().Fields().ByName("content_type")).String()
			req.HasBody = true
			return req, nil
		}
		req.Body, req.ContentType, req.HasBody = data, "application/json", true
		// all remaining fields are in the body; nothing goes to the query
		return req, nil
	case "":
	default:
		fd := work.Descriptor().Fields().ByName(protoreflect.Name(b.Body))
		if fd == nil {
			return nil, fmt.Errorf("body field %q missing", b.Body)
		}
		data, ct, err := fieldJSON(work, fd)
		if err != nil {
			return nil, err
		}
		req.Body, req.ContentType, req.HasBody = data, ct, true
		work.Clear(fd)
	}
	var q []kv
	if err := flattenQuery(work, "", "", ch.jsonNames, r, &q); err != nil {
		return nil, err
	}
	q = append(q, ch.extraQuery...)
	if ch.shuffle {
		q = shuffleKeys(q, r)
	}
	var parts []string
	for _, e := range q {
		parts = append(parts, escQuery(e.k, false)+"="+escQuery(e.v, ch.plusSpace))
	}
	req.RawQuery = strings.Join(parts, "&")
	return req, nil
}

// shuffleKeys permutes the order of distinct keys but keeps the order of the values of each key.
func shuffleKeys(q []kv, r *rand.Rand) []kv {
	var keys []string
	groups := map[string][]kv{}
	for _, e := range q {
		if _, ok := groups[e.k]; !ok {
			keys = append(keys, e.k)
		}
		groups[e.k] = append(groups[e.k], e)
	}
	r.Shuffle(len(keys), func(i, j int) { keys[i], keys[j] = keys[j], keys[i] })
	out := make([]kv, 0, len(q))
	for _, k := range keys {
		out = append(out, groups[k]...)
	}
	return out
}

// jsonMember returns the raw JSON value of one member of a JSON object.
func jsonMember(obj []byte, name string) ([]byte, error) {
	var m map[string]json.RawMessage
	if err := json.Unmarshal(obj, &m); err != nil {
		return nil, err
	}
	v, ok := m[name]
	if !ok {
		return nil, fmt.Errorf("member %q missing", name)
	}
	return v, nil
}

func isHTTPBodyMsg(md protoreflect.MessageDescriptor) bool {
	return md != nil && md.FullName() == "google.api.HttpBody"
}

// fieldJSON renders the JSON value of one field (the HTTP body for body: "<field>").
func fieldJSON(m protoreflect.Message, fd protoreflect.FieldDescriptor) ([]byte, string, error) {
	if fd.Message() != nil && !fd.IsList() && !fd.IsMap() {
		sub := m.Get(fd).Message()
		if isHTTPBodyMsg(fd.Message()) {
			return sub.Get(fd.Message().Fields().ByName("data")).Bytes(),
				sub.Get(fd.Message().Fields().ByName("content_type")).String(), nil
		}
		if !m.Has(fd) {
			return nil, "application/json", nil // absent body field: empty body
		}
		data, err := protojson.Marshal(sub.Interface())
		if err != nil {
			return nil, "", errNotCarriable
		}
		return data, "application/json", nil
	}
	// scalar / repeated / map: marshal a message holding only this field and cut the value out
	tmp := m.New()
	if m.Has(fd) {
		tmp.Set(fd, m.Get(fd))
	}
	data, err := protojson.MarshalOptions{EmitUnpopulated: true}.Marshal(tmp.Interface())
	if err != nil {
		return nil, "", errNotCarriable
	}
	val, err := jsonMember(data, fd.JSONName())
	if err != nil {
		return nil, "", err
	}
	return val, "application/json", nil
}

// ---------------------------------------------------------------------------
// Binder (inverse direction)
// ---------------------------------------------------------------------------

func parseParam(fd protoreflect.FieldDescriptor, s string, parent protoreflect.Message) (protoreflect.Value, error) {
	bad := func() (protoreflect.Value, error) {
		return protoreflect.Value{}, fmt.Errorf("invalid %s value %q", fd.Kind(), s)
	}
	switch fd.Kind() {
	case protoreflect.BoolKind:
		switch s {
		case "true":
			return protoreflect.ValueOfBool(true), nil
		case "false":
			return protoreflect.ValueOfBool(false), nil
		}
		return bad()
	case protoreflect.Int32Kind, protoreflect.Sint32Kind, protoreflect.Sfixed32Kind:
		n, err := strconv.ParseInt(s, 10, 32)
		if err != nil {
			return bad()
		}
		return protoreflect.ValueOfInt32(int32(n)), nil
	case protoreflect.Int64Kind, protoreflect.Sint64Kind, protoreflect.Sfixed64Kind:
		n, err := strconv.ParseInt(s, 10, 64)
		if err != nil {
			return bad()
		}
		return protoreflect.ValueOfInt64(n), nil
	case protoreflect.Uint32Kind, protoreflect.Fixed32Kind:
		n, err := strconv.ParseUint(s, 10, 32)
		if err != nil {
			return bad()
		}
		return protoreflect.ValueOfUint32(uint32(n)), nil
	case protoreflect.Uint64Kind, protoreflect.Fixed64Kind:
		n, err := strconv.ParseUint(s, 10, 64)
		if err != nil {
			return bad()
		}
		return protoreflect.ValueOfUint64(n), nil
	case protoreflect.FloatKind, protoreflect.DoubleKind:
		bits := 64
		if fd.Kind() == protoreflect.FloatKind {
			bits = 32
		}
		var f float64
		switch s {
		case "NaN":
			f = math.NaN()
		case "Infinity":
			f = math.Inf(1)
		case "-Infinity":
			f = math.Inf(-1)
		default:
			var err error
			f, err = strconv.ParseFloat(s, bits)
			if err != nil {
				return bad()
			}
		}
		if bits == 32 {
			return protoreflect.ValueOfFloat32(float32(f)), nil
		}
		return protoreflect.ValueOfFloat64(f), nil
	case protoreflect.StringKind:
		return protoreflect.ValueOfString(s), nil
	case protoreflect.BytesKind:
		t := strings.TrimRight(s, "=")
		if b, err := base64.RawStdEncoding.DecodeString(t); err == nil {
			return protoreflect.ValueOfBytes(b), nil
		}
		if b, err := base64.RawURLEncoding.DecodeString(t); err == nil {
			return protoreflect.ValueOfBytes(b), nil
		}
		return bad()
	case protoreflect.EnumKind:
		if ev := fd.Enum().Values().ByName(protoreflect.Name(s)); ev != nil {
			return protoreflect.ValueOfEnum(ev.Number()), nil
		}
		if n, err := strconv.ParseInt(s, 10, 32); err == nil {
			return protoreflect.ValueOfEnum(protoreflect.EnumNumber(n)), nil
		}
		return bad()
	case protoreflect.MessageKind:
		if !isScalarWKT(fd.Message()) {
			return bad()
		}
		v := parent.NewField(fd)
		if fd.IsList() {
			v = parent.NewField(fd).List().NewElement()
		}
		var data []byte
		switch fd.Message().FullName() {
		case "google.protobuf.Timestamp", "google.protobuf.Duration", "google.protobuf.FieldMask",
			"google.protobuf.StringValue", "google.protobuf.BytesValue":
			data = []byte(strconv.Quote(s))
		case "google.protobuf.DoubleValue", "google.protobuf.FloatValue":
			switch s {
			case "NaN", "Infinity", "-Infinity":
				data = []byte(strconv.Quote(s))
			default:
				data = []byte(s)
			}
		default:
			data = []byte(s)
		}
		if err := protojson.Unmarshal(data, v.Message().Interface()); err != nil {
			return bad()
		}
		return v, nil
	}
	return bad()
}

func setByPath(m protoreflect.Message, fields []protoreflect.FieldDescriptor, s string) error {
	cur := m
	for _, fd := range fields[:len(fields)-1] {
		cur = cur.Mutable(fd).Message()
	}
	fd := fields[len(fields)-1]
	if fd.IsMap() {
		return fmt.Errorf("map field %s cannot be set from a parameter", fd.Name())
	}
	v, err := parseParam(fd, s, cur)
	if err != nil {
		return err
	}
	if fd.IsList() {
		cur.Mutable(fd).List().Append(v)
	} else {
		cur.Set(fd, v)
	}
	return nil
}

func resolveQueryKey(md protoreflect.MessageDescriptor, key string) ([]protoreflect.FieldDescriptor, error) {
	var out []protoreflect.FieldDescriptor
	parts := strings.Split(key, ".")
	for i, p := range parts {
		if md == nil {
			return nil, fmt.Errorf("unknown parameter %q", key)
		}
		fd := md.Fields().ByJSONName(p)
		if fd == nil {
			fd = md.Fields().ByName(protoreflect.Name(p))
		}
		if fd == nil {
			return nil, fmt.Errorf("unknown parameter %q", key)
		}
		out = append(out, fd)
		if i < len(parts)-1 {
			if fd.IsList() || fd.IsMap() || fd.Message() == nil {
				return nil, fmt.Errorf("parameter %q traverses a non-message", key)
			}
			md = fd.Message()
		}
	}
	return out, nil
}

// matchBinding matches a raw path against the binding's template; returns raw captures per variable.
// Strict reading: '*' is one non-empty segment, '**' is one or more segments.
func matchBinding(b *Binding, rawPath string) (caps []string, ok bool) {
	return matchBindingMode(b, rawPath, false)
}

// matchBindingMode with permissive=true also accepts the readings the grammar leaves open: empty segments
// matched by wildcards and '**' matching zero segments.
func matchBindingMode(b *Binding, rawPath string, permissive bool) (caps []string, ok bool) {
	if !strings.HasPrefix(rawPath, "/") {
		return nil, false
	}
	p := rawPath[1:]
	verb := ""
	if li := strings.LastIndexByte(p, '/'); true {
		last := p[li+1:]
		ci := strings.LastIndexByte(last, ':')
		if permissive {
			ci = strings.IndexByte(last, ':')
		}
		if ci >= 0 {
			verb = last[ci+1:]
			p = p[:li+1+ci]
		}
	}
	if verb != b.Verb {
		return nil, false
	}
	parts := strings.Split(p, "/")
	pi := 0
	segStart := make([]int, len(b.Segs)+1)
	for si, s := range b.Segs {
		segStart[si] = pi
		switch s.Kind {
		case segLit:
			if pi >= len(parts) || parts[pi] != s.Lit {
				return nil, false
			}
			pi++
		case segStar:
			if pi >= len(parts) || (parts[pi] == "" && !permissive) {
				return nil, false
			}
			pi++
		case segDStar:
			if pi >= len(parts) && !permissive {
				return nil, false
			}
			if pi > len(parts) {
				return nil, false
			}
			pi = len(parts)
		}
	}
	segStart[len(b.Segs)] = pi
	if pi != len(parts) {
		return nil, false
	}
	for _, v := range b.Vars {
		end := len(parts)
		if v.End != -1 {
			end = segStart[v.End]
		}
		st := segStart[v.Start]
		if st > end {
			st = end
		}
		caps = append(caps, strings.Join(parts[st:end], "/"))
	}
	return caps, true
}

// bindREST is the reference binder.
func bindREST(b *Binding, rawPath, rawQuery string, body []byte, contentType string) (proto.Message, error) {
	caps, ok := matchBinding(b, rawPath)
	if !ok {
		return nil, fmt.Errorf("path %q does not match template %q", rawPath, b.Template)
	}
	msg := newMsg(b.Method.Input())
	m := msg.ProtoReflect()
	switch b.Body {
	case "":
		if len(body) != 0 {
			return nil, errors.New("unexpected body")
		}
	case "*":
		if isHTTPBodyMsg(m.Descriptor()) {
			m.Set(m.Descriptor().Fields().ByName("data"), protoreflect.ValueOfBytes(body))
			m.Set(m.Descriptor().Fields().ByName("content_type"), protoreflect.ValueOfString(contentType))
		} else if len(body) > 0 {
			if err := protojson.Unmarshal(body, msg); err != nil {
				return nil, err
			}
		}
	default:
		fd := m.Descriptor().Fields().ByName(protoreflect.Name(b.Body))
		if fd == nil {
			return nil, fmt.Errorf("no body field %q", b.Body)
		}
		if err := setFieldJSON(m, fd, body, contentType); err != nil {
			return nil, err
		}
	}
	for i, v := range b.Vars {
		multi := v.End == -1 || v.End-v.Start > 1
		val, err := unescOnce(caps[i], multi)
		if err != nil {
			return nil, err
		}
		if err := setByPath(m, v.Fields, val); err != nil {
			return nil, err
		}
	}
	if rawQuery != "" {
		for _, pair := range strings.Split(rawQuery, "&") {
			if pair == "" {
				continue
			}
			k, v, _ := strings.Cut(pair, "=")
			dk, err1 := url.QueryUnescape(k)
			dv, err2 := url.QueryUnescape(v)
			if err1 != nil || err2 != nil {
				return nil, errors.New("bad query escape")
			}
			fields, err := resolveQueryKey(m.Descriptor(), dk)
			if err != nil {
				return nil, err
			}
			if err := setByPath(m, fields, dv); err != nil {
				return nil, err
			}
		}
	}
	return msg, nil
}

func setFieldJSON(m protoreflect.Message, fd protoreflect.FieldDescriptor, body []byte, contentType string) error {
	if fd.Message() != nil && !fd.IsList() && !fd.IsMap() {
		sub := m.Mutable(fd).Message()
		if isHTTPBodyMsg(fd.Message()) {
			sub.Set(fd.Message().Fields().ByName("data"), protoreflect.ValueOfBytes(body))
			sub.Set(fd.Message().Fields().ByName("content_type"), protoreflect.ValueOfString(contentType))
			return nil
		}
		if len(body) == 0 {
			return nil
		}
		return protojson.Unmarshal(body, sub.Interface())
	}
	if len(body) == 0 {
		return nil
	}
	wrapped := append([]byte(`{`+strconv.Quote(fd.JSONName())+`:`), body...)
	wrapped = append(wrapped, '}')
	tmp := m.New()
	if err := protojson.Unmarshal(wrapped, tmp.Interface()); err != nil {
		return err
	}
	if tmp.Has(fd) {
		m.Set(fd, tmp.Get(fd))
	}
	return nil
}
