package main

// Shared scenario generator for the transcoding-matrix properties (C01, C02, C03, C05, ...).

import (
	"fmt"
	"math/rand/v2"
	"net/http"
	"strings"

	"google.golang.org/genproto/googleapis/rpc/errdetails"
	"google.golang.org/protobuf/proto"
	"google.golang.org/protobuf/reflect/protoreflect"
	"google.golang.org/protobuf/types/known/anypb"
	"google.golang.org/protobuf/types/known/durationpb"
	"google.golang.org/protobuf/types/known/wrapperspb"
)

var allProtoNames = []string{"connect", "grpc", "grpcweb", "rest"}

func genConfig(r *rand.Rand) *SvcConfig {
	c := &SvcConfig{}
	mask := 1 + r.IntN(15)
	for i, p := range allProtoNames {
		if mask&(1<<i) != 0 {
			c.Protocols = append(c.Protocols, p)
		}
	}
	c.Codecs = pick(r, [][]string{{"proto"}, {"json"}, {"proto", "json"}, {"json", "proto"}})
	c.Comps = pick(r, [][]string{{}, {"gzip"}, {"zz"}, {"gzip", "zz"}, {"gzip"}, {}})
	c.KnowZZ = contains(c.Comps, "zz") || chance(r, 40)
	return c
}

// resolveTarget is the negotiation model for the protocol: kept iff acceptable, else the
// first configured one in the library's documented preference order.
func resolveTarget(cfg *SvcConfig, clientProto string) string {
	if cfg.HasProtocol(clientProto) {
		return clientProto
	}
	for _, p := range allProtoNames {
		if cfg.HasProtocol(p) {
			return p
		}
	}
	return ""
}

// formsFor lists the client forms that can express method m.
func formsFor(m *MethodInfo) []ClientForm {
	var out []ClientForm
	switch m.Stream {
	case stUnary:
		out = append(out, FConnectUnary, FGRPC, FGRPCWeb)
		if m.Idem == idemNSE {
			out = append(out, FConnectGet)
		}
		if len(m.Rules) > 0 {
			out = append(out, FREST)
		}
	default:
		out = append(out, FConnectStream, FGRPC, FGRPCWeb)
		if len(m.Rules) > 0 {
			if m.Stream == stServer && isHTTPBodyMsg(m.Out()) || m.Stream == stClient && isHTTPBodyMsg(m.In()) {
				out = append(out, FREST)
			}
		}
	}
	return out
}

var hostilePieces = []string{"x", "a b", "100%", "a%2Fb", "%25", "é", "日本", "a:b", "a+b", "~._-", "q?x=1&y", "#h", "a;b", "1", "..", "😀", "A", "%41", "1+1%3D2", "Tom%20%26+Jerry", "a%2bb", "%E2%82%AC+1"}

// valueForVar makes a string value that fits the variable's sub-template.
func valueForVar(r *rand.Rand, b *Binding, v TVar) string {
	segs := b.Segs[v.Start:]
	if v.End != -1 {
		segs = b.Segs[v.Start:v.End]
	}
	var parts []string
	for _, s := range segs {
		switch s.Kind {
		case segLit:
			parts = append(parts, s.Lit)
		case segStar:
			parts = append(parts, pick(r, hostilePieces))
		case segDStar:
			// at least one segment: whether "**" may match zero segments is ambiguous (trailing slash)
			for i, n := 0, 1+r.IntN(3); i < n; i++ {
				parts = append(parts, pick(r, hostilePieces))
			}
		}
	}
	return strings.Join(parts, "/")
}

// nearMissForVar: a value that almost fits the variable's sub-pattern but does not: the trailing "**" left without a
// segment, one segment too few or too many, or a literal replaced. Returns false for single-segment variables.
func nearMissForVar(r *rand.Rand, b *Binding, v TVar) (string, bool) {
	segs := b.Segs[v.Start:]
	if v.End != -1 {
		segs = b.Segs[v.Start:v.End]
	}
	if len(segs) < 2 {
		return "", false
	}
	parts := strings.Split(valueForVar(r, b, v), "/")
	switch r.IntN(4) {
	case 0: // nothing left for the last pattern segment
		n := len(segs) - 1
		if n > len(parts) {
			n = len(parts)
		}
		parts = parts[:n]
	case 1:
		parts = parts[:len(parts)-1]
	case 2:
		for i, s := range segs {
			if s.Kind == segLit && i < len(parts) {
				parts[i] = s.Lit + "x"
				break
			}
		}
	case 3:
		if segs[len(segs)-1].Kind == segDStar {
			parts = parts[:len(segs)-1]
		} else {
			parts = append(parts, "extra")
		}
	}
	return strings.Join(parts, "/"), true
}

func setLeaf(m protoreflect.Message, fields []protoreflect.FieldDescriptor, v protoreflect.Value) {
	cur := m
	for _, fd := range fields[:len(fields)-1] {
		cur = cur.Mutable(fd).Message()
	}
	cur.Set(fields[len(fields)-1], v)
}

// genForBinding generates a message that the reference renderer can express under b.
func genForBinding(r *rand.Rand, b *Binding, marker string) (proto.Message, *RESTReq, renderChoices) {
	ch := renderChoices{jsonNames: chance(r, 50), plusSpace: chance(r, 30), shuffle: chance(r, 50),
		customVerb: pick(r, []string{"POST", "GET", "PUT", "OPTIONS", "CUSTOM"})}
	for attempt := 0; attempt < 12; attempt++ {
		o := genOpts{density: pick(r, []int{3, 8, 20, 40}), depth: 2, noMaps: b.Body != "*"}
		if attempt > 8 {
			o.density = 1
		}
		msg := genMessage(r, b.Method.Input(), o)
		m := msg.ProtoReflect()
		if marker != "" {
			setMarker(msg, marker)
		}
		for _, v := range b.Vars {
			leaf := v.Fields[len(v.Fields)-1]
			if leaf.Kind() == protoreflect.StringKind {
				setLeaf(m, v.Fields, protoreflect.ValueOfString(valueForVar(r, b, v)))
			} else if leaf.Kind() != protoreflect.MessageKind {
				so := genOpts{noNaN: false}
				setLeaf(m, v.Fields, genScalar(r, leaf, &so))
			}
		}
		rr, err := renderREST(b, msg, r, ch)
		if err == nil {
			return msg, rr, ch
		}
	}
	return nil, nil, ch
}

var detailPool = []func(r *rand.Rand) proto.Message{
	func(r *rand.Rand) proto.Message {
		return &errdetails.ErrorInfo{Reason: pick(r, stringPool), Domain: "verif.example", Metadata: map[string]string{"k": pick(r, stringPool)}}
	},
	func(r *rand.Rand) proto.Message {
		return &errdetails.RetryInfo{RetryDelay: durationpb.New(1500000000)}
	},
	func(r *rand.Rand) proto.Message { return wrapperspb.String(pick(r, stringPool)) },
	func(r *rand.Rand) proto.Message {
		return &errdetails.BadRequest{FieldViolations: []*errdetails.BadRequest_FieldViolation{{Field: "f", Description: pick(r, stringPool)}}}
	},
}

var errMsgPool = []string{"", "boom", "100% wrong", "line1\r\nline2", "say \"hi\"", "é", "日本語 エラー", "😀 oops", "a%2Fb", "tab\there", "back\\slash", "~!@#$^&*()_+", "mid  dle", "del\x7fchar"}

func genRPCError(r *rand.Rand) *RPCError {
	e := &RPCError{Code: 1 + r.IntN(16), Msg: pick(r, errMsgPool)}
	for i, n := 0, pick(r, []int{0, 0, 1, 2, 3}); i < n; i++ {
		a, _ := anypb.New(pick(r, detailPool)(r))
		e.Details = append(e.Details, a)
	}
	e.PadDetails = chance(r, 30)
	return e
}

var appValuePool = []string{"v", "hello world", "a,b", "x=y; z", "\"q\"", "1234567890", "~!@#$%^&*()", "UPPER lower", "semi;colon", "tab\tx"}

func genAppHeaders(r *rand.Rand, prefix string, n int) http.Header {
	h := http.Header{}
	for i := 0; i < n; i++ {
		name := fmt.Sprintf("%s-%s%d", prefix, pick(r, []string{"App", "Meta", "Trace", "K"}), r.IntN(5))
		if chance(r, 25) {
			name += "-Bin"
		}
		nv := 1 + r.IntN(3)
		for j := 0; j < nv; j++ {
			if strings.HasSuffix(name, "-Bin") {
				h.Add(name, pick(r, []string{"AQID", "AQIDBA==", "AQIDBA", "", "/+8=", "_-8"}))
			} else {
				h.Add(name, pick(r, appValuePool))
			}
		}
	}
	return h
}

type ScenOpts struct {
	Cfg          *SvcConfig // force this service configuration
	Methods      []*MethodInfo // schema to draw methods from (default: Kitchen)
	Schema       string
	Timeouts     bool // add a (valid) timeout header in the client's protocol
	Variety      bool // backend scripts: bare HTTP errors, declared lengths, compressed end frames, empty responses
	ForceForm    *ClientForm
	ForceMethod  string
	MaxStr       int
	OnlySuccess  bool
	OnlyUnaryish bool
	NoREST       bool
	Headers      bool
}

type Scenario struct {
	Cfg    *SvcConfig
	Req    *ClientReq
	Script *BackendScript
	Target string // modelled target protocol
	Marker string
}

func (s *Scenario) Cell() string {
	return fmt.Sprintf("%s->%s/%s", s.Req.Form, s.Target, streamName(s.Req.M.Stream))
}

func streamName(st int) string { return []string{"unary", "client", "server", "bidi"}[st] }

func frameCompPattern(r *rand.Rand, n int) []bool {
	out := make([]bool, n)
	switch r.IntN(4) {
	case 0: // all
		for i := range out {
			out[i] = true
		}
	case 1: // none
	case 2: // alternating
		for i := range out {
			out[i] = i%2 == 0
		}
	default:
		for i := range out {
			out[i] = r.IntN(2) == 0
		}
	}
	return out
}

// genScenario draws one transcoding scenario.
func genScenario(r *rand.Rand, so ScenOpts, marker string) *Scenario {
	kitchen()
	for tries := 0; ; tries++ {
		if tries > 300 {
			return nil // the forced combination cannot be expressed
		}
		cfg := genConfig(r)
		if so.Cfg != nil {
			cp := *so.Cfg
			cfg = &cp
		}
		cfg.Schema = so.Schema
		var m *MethodInfo
		if so.Methods != nil {
			m = pick(r, so.Methods)
		} else if so.ForceMethod != "" {
			m = kitchenInfo[so.ForceMethod]
		} else {
			m = pick(r, kitchenList)
			if chance(r, 40) {
				m = kitchenInfo[pick(r, []string{"ClientStream", "ServerStream", "Bidi", "Bidi", "RawStreamOut", "RawStreamIn"})]
			}
			if so.OnlyUnaryish && m.Stream == stBidi {
				continue
			}
		}
		forms := formsFor(m)
		form := pick(r, forms)
		if so.ForceForm != nil {
			form = *so.ForceForm
			ok := false
			for _, f := range forms {
				ok = ok || f == form
			}
			if !ok {
				continue
			}
		}
		if so.NoREST && form == FREST {
			continue
		}
		target := resolveTarget(cfg, form.Protocol())
		if target == "rest" && (len(m.Rules) == 0 || m.Stream != stUnary) {
			continue // REST targets are only modelled for unary methods with a binding
		}
		if form == FREST && m.Stream != stUnary {
			continue
		}
		creq := &ClientReq{Form: form, M: m}
		creq.Codec = pick(r, []string{"proto", "json"})
		if form == FREST {
			creq.Codec = "json"
		}
		comps := []string{"", "", "gzip", "gzip"}
		if so.Cfg != nil && target == "rest" && (len(m.Rules) == 0 || m.Stream != stUnary) {
			continue
		}
		if cfg.KnowZZ {
			comps = append(comps, "zz")
		}
		creq.Comp = pick(r, comps)
		if cfg.KnowZZ {
			creq.Accept = pick(r, [][]string{nil, {"gzip"}, {"zz"}, {"gzip", "zz"}, {"zz", "gzip"}})
		} else {
			creq.Accept = pick(r, [][]string{nil, {"gzip"}, {"gzip"}})
		}
		creq.HTTP2 = form == FGRPC || m.Stream == stBidi || chance(r, 50)
		creq.HTTP3 = so.Variety && form != FGRPC && chance(r, 10)
		creq.DeclLen = chance(r, 40)
		creq.BareCT = chance(r, 20)
		creq.GetNoBase64 = chance(r, 50)
		creq.GetPadded = chance(r, 50)
		creq.GetViaQuery = chance(r, 70)
		nreq, nresp := 1, 1
		if m.Stream == stClient || m.Stream == stBidi {
			nreq = pick(r, []int{0, 1, 2, 3, 5, 8})
		}
		if m.Stream == stServer || m.Stream == stBidi {
			nresp = pick(r, []int{0, 1, 2, 3, 5, 8})
		}
		gopts := genOpts{maxStr: so.MaxStr}
		if form == FREST {
			b := pick(r, m.Rules)
			msg, rr, ch := genForBinding(r, b, marker+"/q0")
			if msg == nil {
				continue
			}
			creq.Binding, creq.Rest, creq.Render = b, rr, ch
			creq.Msgs = []proto.Message{msg}
		} else {
			for i := 0; i < nreq; i++ {
				o := gopts
				o.marker = fmt.Sprintf("%s/q%d", marker, i)
				if target == "rest" {
					// a message the reference renderer can express under the primary binding
					msg, _, _ := genForBinding(r, m.Rules[0], o.marker)
					if msg == nil {
						msg = genMessage(r, m.In(), genOpts{density: 1, marker: o.marker})
					}
					creq.Msgs = append(creq.Msgs, msg)
					continue
				}
				if chance(r, 12) {
					o.marker, o.density = "", pick(r, []int{0, 0, 1}) // unmarked, mostly empty message
					if chance(r, 50) && !isHTTPBodyMsg(m.In()) {
						creq.Msgs = append(creq.Msgs, newMsg(m.In()))
						continue
					}
				}
				creq.Msgs = append(creq.Msgs, genMessage(r, m.In(), o))
			}
		}
		creq.FrameComp = frameCompPattern(r, len(creq.Msgs))
		if so.Headers {
			creq.App = genAppHeaders(r, "X-Req", r.IntN(4))
			if chance(r, 30) {
				// ordinary metadata whose names merely look like control headers
				for k, n := 0, 1+r.IntN(2); k < n; k++ {
					name := pick(r, []string{"Content-Language", "Content-Disposition", "Content-Location", "Accept", "Accept-Language", "User-Agent", "Authorization", "Cookie", "X-Grpc-Thing", "X-Connect-Thing", "Trailerx", "Tex", "Contenttype"})
					creq.App.Add(name, pick(r, appValuePool))
					if chance(r, 30) {
						creq.App.Add(name, pick(r, appValuePool))
					}
				}
			}
		}
		if so.Timeouts && chance(r, 60) {
			creq.Timeout = genValidTimeout(r, form)
		}
		script := &BackendScript{}
		for i := 0; i < nresp; i++ {
			o := gopts
			o.marker = fmt.Sprintf("%s/p%d", marker, i)
			if chance(r, 12) && !isHTTPBodyMsg(m.Out()) {
				// (an HttpBody without content type has no faithful REST representation)
				script.Msgs = append(script.Msgs, newMsg(m.Out())) // empty message
				continue
			}
			script.Msgs = append(script.Msgs, genMessage(r, m.Out(), o))
		}
		script.Comp = pick(r, []string{"", "gzip", "gzip", "zz"})
		script.FrameComp = frameCompPattern(r, len(script.Msgs))
		if m.Stream == stUnary || m.Stream == stClient {
			// unary responses: the single message is either compressed or not
		}
		script.ReadBuf = pick(r, []int{0, 0, 7, 64, 4096, 5, 1024})
		script.DeclareTrailers = chance(r, 40)
		script.DeclareCase = pick(r, []int{0, 0, 1, 2})
		script.OKExtras = pick(r, []int{0, 0, 0, 1, 2})
		script.BareCT = chance(r, 15)
		script.FlushEach = chance(r, 30)
		if so.Headers {
			script.Headers = genAppHeaders(r, "X-Resp", r.IntN(4))
			script.Trailers = genAppHeaders(r, "X-Trail", r.IntN(4))
		}
		if !so.OnlySuccess && chance(r, 25) {
			script.Err = genRPCError(r)
			script.ErrAfter = r.IntN(len(script.Msgs) + 1)
			if m.Stream == stUnary || m.Stream == stClient {
				script.ErrAfter = 0
			}
			script.TrailersOnly = chance(r, 50)
			script.CompressEnd = chance(r, 30)
		}
		if so.Variety {
			switch r.IntN(10) {
			case 0:
				script.Bare = &BareHTTP{Status: pick(r, []int{400, 401, 403, 404, 409, 429, 500, 502, 503, 504, 418}),
					CT: pick(r, []string{"text/plain", "text/html", "application/json", ""}),
					Body: []byte(pick(r, []string{"", "upstream unavailable", "{\"not\":\"a status\"}", "<html>x</html>"}))}
			case 1:
				script.DeclLen = true
			case 2:
				if m.Stream == stServer || m.Stream == stBidi {
					script.Msgs = nil // empty response stream
					script.FrameComp = nil
				}
			case 3:
				script.WriteSeg = []int{1, 1, 1, 1, 1, 2, 3, 1000}
				script.EmptyWrites = true
			}
		}
		return &Scenario{Cfg: cfg, Req: creq, Script: script, Target: target, Marker: marker}
	}
}

// restrictTo returns a copy of msg that keeps only the named top-level field ("" or "*" = all).
func restrictTo(msg proto.Message, field string) proto.Message {
	if field == "" || field == "*" {
		return msg
	}
	m := msg.ProtoReflect()
	fd := m.Descriptor().Fields().ByName(protoreflect.Name(field))
	out := m.New()
	if fd != nil && m.Has(fd) {
		out.Set(fd, m.Get(fd))
	}
	return out.Interface()
}

// genValidTimeout returns a syntactically valid timeout header value for the form.
func genValidTimeout(r *rand.Rand, form ClientForm) string {
	switch form {
	case FGRPC, FGRPCWeb:
		return fmt.Sprintf("%d%s", pick(r, []int{0, 1, 5, 100, 99999999, 12345}), pick(r, []string{"H", "M", "S", "m", "u", "n"}))
	case FREST:
		return pick(r, []string{"1", "0.5", "30", "0.001", "1e3", "120.25"})
	}
	return fmt.Sprint(pick(r, []int64{0, 1, 50, 1000, 9999999999, 30000}))
}
