package main

import (
	"os"
	"bytes"
	"fmt"
	"math/rand/v2"
	"runtime"
	"strings"

	"connectrpc.com/vanguard"
	"google.golang.org/protobuf/proto"
	"google.golang.org/protobuf/reflect/protoreflect"
)

func init() {
	register(&Property{
		ID:    "C10",
		Level: "exploration",
		Rule: "case i: limit L in {1 KiB, 4 KiB, 100 KiB, 1 MiB} x direction (request / response) x size family (message bytes L-1, L, L+1, 2L, 10L, 100L (L<=100 KiB); " +
			"compressible payloads with gzip ratios ~1:1 .. ~1000:1; many-empty-submessage messages whose JSON is far larger than their binary form; large error messages (error body, end-of-stream frame, also compressed and inflating to 1000 L; a family of its own for error BODIES of un-enveloped backends up to 1000 L with declared or undeclared lengths, where delivery of a body beyond 4L+64 KiB is itself a violation); frames or bodies that only ANNOUNCE a huge length; incompressible payloads sent as gzip) " +
			"x client form x target protocol/codec/compression x declared or undeclared lengths. Each scenario runs twice, serially in a quiet process: a calibration run under a 1 GiB limit records every representation " +
			"size actually observed (wire, decompressed, re-encoded, re-compressed; both legs), then the run under L. oracle: (a) all representations <= L => success with intact messages; (b) failure of a size-affected RPC => resource_exhausted; " +
			"(c) always: largest pooled-buffer capacity seen by the pool hooks (Get/Put/Wrap) during the request, and of every buffer handed out once the request is over, <= 4L+64 KiB (TotalAlloc deltas are recorded as evidence only: the heap is shared with the harness). Self-calibrated boundaries: L = max representation (must pass) and max-1. " +
			"non-trivial = some representation within [L/2, 100L]; distinct by (L, family, direction, cell)",
		Assume: []string{"serial execution: the pool hooks and MemStats deltas are attributed to the one request in flight", "constants 4L+64 KiB and 24x+4 MiB leave >=3x head-room over legitimate at-limit traffic (measured: 2-3x L)"},
		Serial: true,
		N:      func(t string) int { return tierN(t, 900, 9000) },
		Setup:  c10Setup,
		Run:    runC10,
		MinimaFor: func(t string) map[string]int {
			return map[string]int{"at-limit-must-pass": tierN(t, 150, 1500), "over-limit-rejected": tierN(t, 100, 1000), "memory-checked": tierN(t, 600, 6000)}
		},
	})
}

var c10MaxCap int

// every buffer handed out during the request in flight: inspected again when the request is over, so that a buffer
// that grew and was never given back (or was dropped as too large to recycle) is measured too
var c10Handed []*bytes.Buffer
var c10MaxAllocRatio float64

func c10Setup(c *Ctx) {
	note := func(b *bytes.Buffer) {
		if b != nil && b.Cap() > c10MaxCap {
			c10MaxCap = b.Cap()
		}
	}
	installCountingHooks(&vanguard.VerifHooks{
		PoolGet:  func(b *bytes.Buffer) { note(b); c10Handed = append(c10Handed, b) },
		PoolPut:  func(b *bytes.Buffer) bool { note(b); return false },
		PoolWrap: func(_ []byte, o, res *bytes.Buffer) { note(o); note(res) },
	})
}

type c10Sizes struct {
	maxRep int
	wire   int
}

func noteRep(s *c10Sizes, n int) {
	if n > s.maxRep {
		s.maxRep = n
	}
}

// observedSizes collects every representation size visible at the two boundaries of one execution.
func observedSizes(e *Exec, reqPlain, respPlain [][]byte) c10Sizes {
	var s c10Sizes
	s.wire = len(e.Built.Raw) + e.Rec.Body.Len() + len(e.Backend.Obs.Body) + len(e.Backend.Obs.Written)
	for _, p := range reqPlain {
		noteRep(&s, len(p))
	}
	for _, p := range respPlain {
		noteRep(&s, len(p))
	}
	// client wire frames / body
	if e.Req.Form.Enveloped() {
		fr, _ := parseFrames(e.Built.Raw)
		for _, f := range fr {
			noteRep(&s, len(f.Payload))
		}
	} else if e.Req.Form != FConnectGet {
		noteRep(&s, len(e.Built.Raw))
	}
	bo := e.Backend.Obs
	switch bo.Proto {
	case "grpc", "grpcweb", "connect-stream":
		fr, _ := parseFrames(bo.Body)
		for _, f := range fr {
			noteRep(&s, len(f.Payload))
		}
		fw, _ := parseFrames(bo.Written)
		for _, f := range fw {
			if (bo.Proto == "grpcweb" && f.Flags&0x80 != 0) || (bo.Proto == "connect-stream" && f.Flags&2 != 0) {
				noteRep(&s, len(f.Payload)) // end frames are buffered too
				if f.Flags&1 != 0 && e.Backend.Script.Comp != "" {
					if d, err := decompressWith(e.Backend.Script.Comp, f.Payload); err == nil {
						noteRep(&s, len(d))
					}
				}
				continue
			}
			noteRep(&s, len(f.Payload))
		}
	default:
		noteRep(&s, len(bo.Body))
		noteRep(&s, len(bo.Written))
		if e.Backend.Script.Comp != "" {
			if d, err := decompressWith(e.Backend.Script.Comp, bo.Written); err == nil {
				noteRep(&s, len(d)) // a compressed unary body or error body, inflated
			}
		}
	}
	for _, raw := range bo.RawMsgs {
		noteRep(&s, len(raw)) // decompressed form at the backend
	}
	for _, raw := range e.Out.RawMsgs {
		noteRep(&s, len(raw)) // decompressed form at the client
	}
	if e.Req.Form.Enveloped() {
		fr, _ := parseFrames(e.Rec.Body.Bytes())
		for _, f := range fr {
			noteRep(&s, len(f.Payload))
		}
	} else {
		noteRep(&s, e.Rec.Body.Len())
	}
	return s
}

func sizedMessage(md protoreflect.MessageDescriptor, n int, compressible bool, r *rand.Rand) proto.Message {
	msg := newMsg(md)
	m := msg.ProtoReflect()
	fd := m.Descriptor().Fields().ByName("bytes_value")
	b := make([]byte, n)
	if !compressible {
		for i := range b {
			b[i] = byte(r.IntN(256))
		}
	}
	m.Set(fd, protoreflect.ValueOfBytes(b))
	return msg
}

// expandingMessage: many empty sub-messages; tiny in binary form, huge as JSON with unpopulated fields emitted.
func expandingMessage(md protoreflect.MessageDescriptor, count int) proto.Message {
	msg := newMsg(md)
	m := msg.ProtoReflect()
	fd := m.Descriptor().Fields().ByName("msg_list")
	if fd == nil {
		fd = m.Descriptor().Fields().ByName("recursive_list")
	}
	l := m.Mutable(fd).List()
	for i := 0; i < count; i++ {
		l.Append(l.NewElement())
	}
	return msg
}

func runC10(c *Ctx, i int, r *rand.Rand) {
	kitchen()
	L := pick(r, []uint32{1 << 10, 4 << 10, 100 << 10, 1 << 20})
	if !c.Thorough() && L == 1<<20 && chance(r, 85) {
		L = pick(r, []uint32{1 << 10, 4 << 10, 100 << 10})
	}
	family := pick(r, []string{"size", "size", "size", "gzip-ratio", "gzip-ratio", "json-expansion", "big-error", "calibrated", "calibrated", "declared-length", "error-body"})
	// "error-body": the big-error family aimed at the one adapter that buffers a whole error body (un-enveloped
	// Connect unary backend), small limits so that 100 L and 1000 L are cheap
	errBody := family == "error-body"
	if errBody {
		family = "big-error"
		L = pick(r, []uint32{1 << 10, 4 << 10})
	}
	dirReq := chance(r, 50)
	mname := pick(r, []string{"Unary", "Unary", "ClientStream", "ServerStream", "Bidi"})
	if errBody {
		mname = "Unary"
	}
	m := kitchenInfo[mname]
	form := pick(r, formsFor(m))
	cfg := genConfig(r)
	for resolveTarget(cfg, form.Protocol()) == "rest" {
		cfg = genConfig(r)
	}
	cfg.KnowZZ = false
	var comps []string
	for _, x := range cfg.Comps {
		if x != "zz" {
			comps = append(comps, x)
		}
	}
	cfg.Comps = comps
	mult := pick(r, []int{-1, 0, 1, 2, 10})
	if L <= 100<<10 && chance(r, 10) {
		mult = 100
	}
	if L <= 4<<10 && chance(r, 25) {
		// far past the limit: whatever is buffered without a check shows up in the pool hooks despite the additive slack
		mult = pick(r, []int{100, 1000})
	}
	if L == 1<<20 && mult == 10 && !c.Thorough() {
		mult = 2
	}
	size := int(L)
	switch mult {
	case -1:
		size = int(L) - 1 - 8
	case 0:
		size = int(L) - 8
	case 1:
		size = int(L) + 1
	default:
		size = int(L) * mult
	}
	if size < 0 {
		size = 0
	}
	if max := tierN(c.Tier, 3<<20, 32<<20); size > max {
		size = max
	}
	creq := &ClientReq{Form: form, M: m, Codec: pick(r, []string{"proto", "json"}), HTTP2: true, DeclLen: chance(r, 50), GetViaQuery: true, Accept: []string{"gzip"}}
	script := &BackendScript{Comp: pick(r, []string{"", "gzip"}), ReadBuf: 64 << 10, DeclLen: chance(r, 40)}
	// strata that random configurations reach too rarely: a forced re-encoding (the transforming adapters buffer whole
	// messages) and a single forced target protocol (un-enveloped Connect unary bodies vs enveloped streams)
	if chance(r, 35) {
		cfg.Codecs = []string{map[string]string{"proto": "json", "json": "proto"}[creq.Codec]}
	}
	if chance(r, 30) {
		cfg.Protocols = []string{pick(r, []string{"connect", "connect", "grpc", "grpcweb"})}
	}
	compressible := family == "gzip-ratio"
	if family == "size" && chance(r, 35) {
		// random bytes declared (and sent) gzip: the wire form of a flagged frame is as large as the message
		creq.Comp, script.Comp = "gzip", "gzip"
	}
	if compressible {
		creq.Comp = "gzip"
		script.Comp = "gzip"
		size = int(L) * pick(r, []int{1, 10, 100, 1000}) / 2
		if max := tierN(c.Tier, 8<<20, 64<<20); size > max {
			size = max
		}
	}
	small := func(md protoreflect.MessageDescriptor) proto.Message { return genMessage(r, md, genOpts{density: 2, noMaps: true}) }
	big := func(md protoreflect.MessageDescriptor) proto.Message {
		switch family {
		case "json-expansion":
			n := pick(r, []int{int(L) / 40, int(L) / 4, int(L)})
			if max := tierN(c.Tier, 200_000, 600_000); n > max {
				n = max // hundreds of megabytes of JSON add nothing but run time
			}
			return expandingMessage(md, n)
		}
		return sizedMessage(md, size, compressible, r)
	}
	nreq, nresp := 1, 1
	if m.Stream == stClient || m.Stream == stBidi {
		nreq = 1 + r.IntN(3)
	}
	if m.Stream == stServer || m.Stream == stBidi {
		nresp = 1 + r.IntN(3)
	}
	for k := 0; k < nreq; k++ {
		if dirReq && k == nreq-1 {
			creq.Msgs = append(creq.Msgs, big(m.In()))
		} else {
			creq.Msgs = append(creq.Msgs, small(m.In()))
		}
	}
	for k := 0; k < nresp; k++ {
		if !dirReq && k == nresp-1 && family != "big-error" {
			script.Msgs = append(script.Msgs, big(m.Out()))
		} else {
			script.Msgs = append(script.Msgs, small(m.Out()))
		}
	}
	creq.FrameComp = repeatBool(true, nreq)
	script.FrameComp = repeatBool(true, nresp)
	if family == "big-error" {
		esz := pick(r, []int{int(L) / 2, int(L), 2 * int(L), 10 * int(L)})
		if L <= 4<<10 && chance(r, 40) {
			esz = 100 * int(L) // far enough past the limit to show in the pool hooks despite the additive slack
		}
		if chance(r, 40) {
			// an error BODY (un-enveloped Connect unary backend), with and without a declared length
			cfg.Protocols = []string{"connect"}
			script.DeclLen = chance(r, 60)
		}
		if errBody {
			cfg.Protocols = []string{"connect"}
			script.DeclLen = chance(r, 60)
			esz = pick(r, []int{int(L) / 2, int(L) - 100, int(L) + 1, 2 * int(L), 100 * int(L), 1000 * int(L)})
		}
		if !errBody && chance(r, 50) {
			// a compressed end-of-stream frame / error body: tiny on the wire, large once inflated
			script.Comp, script.CompressEnd = "gzip", true
			esz = pick(r, []int{int(L) / 2, int(L) - 200, 2 * int(L), 10 * int(L), 100 * int(L), 1000 * int(L)})
			if max := tierN(c.Tier, 8<<20, 32<<20); esz > max {
				esz = max
			}
			if esz < 0 {
				esz = 0
			}
		}
		script.Err = &RPCError{Code: 1 + r.IntN(16), Msg: strings.Repeat("e", esz)}
		script.ErrAfter = r.IntN(len(script.Msgs) + 1)
		if m.Stream == stUnary || m.Stream == stClient {
			script.ErrAfter = 0
		}
		script.TrailersOnly = chance(r, 50)
	}
	if creq.Codec == "json" {
		for _, x := range creq.Msgs {
			if !jsonCarriable(x) {
				return
			}
		}
	}
	built, err := creq.Build(r)
	if err != nil {
		return
	}
	creq.UseRawBody, creq.RawBody = true, built.Raw
	if family == "declared-length" {
		c10DeclaredLength(c, i, r, cfg, creq, script, L)
		return
	}
	var reqPlain, respPlain [][]byte
	for _, x := range creq.Msgs {
		b, _ := encodeMsg(creq.Codec, x)
		reqPlain = append(reqPlain, b)
	}
	run := func(limit uint32) (*Exec, int, uint64) {
		cc := *cfg
		cc.Limit = limit
		cr := *creq
		sc := *script
		var m0, m1 runtime.MemStats
		c10MaxCap = 0
		c10Handed = c10Handed[:0]
		// a transcoder (and with it a buffer pool) of its own: a buffer that an earlier case left grown in a shared pool
		// would otherwise be measured as if this request had filled it
		tc, terr := buildTranscoder(&cc, true)
		if terr != nil {
			return nil, 0, 0
		}
		runtime.ReadMemStats(&m0)
		e, err := runRPC(&cc, &cr, &sc, r, &execOpts{Transcoder: tc})
		runtime.ReadMemStats(&m1)
		for k, b := range c10Handed {
			if b.Cap() > c10MaxCap {
				c10MaxCap = b.Cap()
			}
			c10Handed[k] = nil
		}
		if err != nil {
			return nil, 0, 0
		}
		return e, c10MaxCap, m1.TotalAlloc - m0.TotalAlloc
	}
	// calibration under a huge limit
	e0, _, _ := run(1 << 30)
	if e0 == nil || e0.Panic != nil {
		return
	}
	c.Eval()
	if !(e0.Out.OK() || script.Err != nil) {
		c.Count("calibration-not-ok")
		return
	}
	for _, x := range script.Msgs {
		// the plain (decompressed) form of what the backend sent, in the codec it was addressed in
		if b, err := encodeMsg(e0.Backend.Obs.Codec, x); err == nil {
			respPlain = append(respPlain, b)
		}
	}
	sizes := observedSizes(e0, reqPlain, respPlain)
	limit := L
	if family == "calibrated" {
		switch i % 3 {
		case 0:
			limit = uint32(sizes.maxRep)
		case 1:
			limit = uint32(sizes.maxRep) - 1
		default:
			limit = uint32(sizes.maxRep) + 1
		}
		if limit == 0 || sizes.maxRep < 2 {
			return
		}
	}
	e, maxCap, alloc := run(limit)
	if e == nil {
		return
	}
	c.Eval()
	feat := fmt.Sprintf("%s/%s/%s->%s", family, map[bool]string{true: "request", false: "response"}[dirReq], form, orNone(e.Backend.Obs.target()))
	if i < 3 {
		c.Sample(map[string]any{"case": i, "L": limit, "family": family, "max_representation": sizes.maxRep, "max_pool_buffer_cap": maxCap, "total_alloc": alloc, "describe": clipS(e.Describe())})
	}
	detail := func() string {
		return fmt.Sprintf("limit L=%d, family=%s, largest representation observed under a 1 GiB limit=%d bytes, wire bytes=%d\nlargest pooled buffer capacity=%d (bound %d), TotalAlloc delta=%d (bound %d)\n%s",
			limit, family, sizes.maxRep, sizes.wire, maxCap, 4*int(limit)+64<<10, alloc, 24*uint64(maxInt(int(limit), sizes.wire))+32<<20, e.Describe())
	}
	if sizes.maxRep >= int(limit)/2 && sizes.maxRep <= 100*int(limit) {
		c.Nontrivial(fmt.Sprintf("%d|%s|%d", limit, feat, sizes.maxRep))
	}
	if sizes.maxRep >= 10*int(limit) {
		conv := "same-codec"
		if e.Backend.Obs.Invocations > 0 && e.Backend.Obs.Codec != creq.Codec {
			conv = "re-encoded"
		}
		c.Count(fmt.Sprintf("far-over-limit:%s/%s/%s", map[bool]string{true: "request", false: "response"}[dirReq], orNone(e.Backend.Obs.Proto), conv))
		if os.Getenv("VERIF_C10_DEBUG") != "" && !dirReq && e.Backend.Obs.Proto == "connect-unary" {
			fmt.Fprintf(os.Stderr, "DEBUG case %d family=%s limit=%d maxRep=%d maxCap=%d conv=%s form=%s out=%s comp=%q used=%q\n", i, family, limit, sizes.maxRep, maxCap, conv, form, e.Out.Summary(), script.Comp, e.Backend.Obs.UsedComp)
		}
	}
	if e.Panic != nil {
		c.Violate(i, "transcoder-panic/"+panicSite(e.Stack), detail())
		return
	}
	o := e.Out
	// (c) memory bound. An error that a gRPC backend carries in its trailers is HTTP header data, not a message:
	// its size is outside the message buffer limit's reach.
	// (a gRPC-Web backend answering trailers-only does the same: status and message travel in the response head)
	headerBorne := family == "big-error" && (e.Backend.Obs.Proto == "grpc" || (e.Backend.Obs.Proto == "grpcweb" && script.TrailersOnly && script.ErrAfter == 0))
	c.Count("memory-checked")
	if headerBorne {
		c.Count("header-borne-error-not-bounded")
	} else if maxCap > 4*int(limit)+64<<10 {
		c.Violate(i, "pooled-buffer-exceeds-bound/"+family+"/"+map[bool]string{true: "request", false: "response"}[dirReq], detail())
	}
	// TotalAlloc is recorded, not judged: the heap is shared with the harness, whose own reference decoders
	// (gunzip of the same payloads, fresh gzip writers) dominate it on pass-along paths.
	if ratio := float64(alloc) / float64(maxInt(int(limit), sizes.wire)); ratio > c10MaxAllocRatio {
		c10MaxAllocRatio = ratio
		c.SetExtra("max_total_alloc_over_max_L_wire", ratio)
	}
	// (a) everything fits => must succeed
	if sizes.maxRep <= int(limit) {
		c.Count("at-limit-must-pass")
		if script.Err == nil && !o.OK() {
			c.Violate(i, "rejected-although-every-representation-fits/"+feat, detail())
			return
		}
		if script.Err != nil && (o.Kind != "error" || o.Code != script.Err.Code) {
			c.Violate(i, "error-lost-although-it-fits/"+feat, detail())
		}
		if o.OK() {
			if d, _ := seqDiff(creq.Msgs, e.Backend.Obs.Msgs, false); d != "" {
				c.Violate(i, "message-altered-at-limit/"+feat, fmt.Sprintf("%s\n%s", d, detail()))
			}
		}
		return
	}
	// (b') a message that had to be re-encoded was held in full in its new form: if that form exceeds the memory bound
	// (a small multiple of L), delivering it means that much was buffered, whatever the wire form looked like
	if o.OK() && family != "big-error" {
		bo := e0.Backend.Obs
		if dirReq && bo.Invocations > 0 && bo.Codec != creq.Codec && !e0.Backend.Obs.Direct {
			for k, raw := range bo.RawMsgs {
				if len(raw) > 4*int(limit)+64<<10 && k < len(e.Backend.Obs.Msgs) && e.Backend.Obs.Msgs[k] != nil {
					c.Violate(i, "oversized-reencoded-message-delivered/request/"+feat, fmt.Sprintf("request message %d is %d bytes in the backend's codec (limit %d) and was delivered\n%s", k, len(raw), limit, detail()))
					return
				}
			}
		}
		if !dirReq && bo.Invocations > 0 && bo.Codec != creq.Codec && !bo.Direct {
			for k, raw := range e0.Out.RawMsgs {
				if len(raw) > 4*int(limit)+64<<10 && k < len(o.Msgs) && o.Msgs[k] != nil {
					c.Violate(i, "oversized-reencoded-message-delivered/response/"+feat, fmt.Sprintf("response message %d is %d bytes in the client's codec (limit %d) and was delivered\n%s", k, len(raw), limit, detail()))
					return
				}
			}
		}
	}
	if family == "big-error" && script.Err != nil && e.Backend.Obs.Proto == "connect-unary" && !e.Backend.Obs.Direct {
		c.Count(fmt.Sprintf("error-body:declared=%v/compressed=%v/beyond-bound=%v", script.DeclLen, script.CompressEnd, len(script.Err.Msg) > 4*int(limit)+64<<10))
	}
	// (b'') the error body of an un-enveloped backend has to be held in full before it can be translated for the client:
	// one beyond the memory bound that arrives intact was buffered
	if family == "big-error" && script.Err != nil && !script.CompressEnd && o.Kind == "error" && o.Msg == script.Err.Msg &&
		e.Backend.Obs.Proto == "connect-unary" && !e.Backend.Obs.Direct && len(script.Err.Msg) > 4*int(limit)+64<<10 {
		c.Violate(i, "oversized-error-body-delivered/"+feat, detail())
		return
	}
	// (b) something does not fit: success is fine if nothing had to be buffered; failure must say resource_exhausted
	if o.OK() || (script.Err != nil && o.Kind == "error" && o.Code == script.Err.Code && o.Msg == script.Err.Msg) {
		c.Count("over-limit-streamed-through")
		return
	}
	c.Count("over-limit-rejected")
	if o.Code != 8 {
		if len(o.Malformed) > 0 {
			c.Violate(i, "over-limit-response-invalid/"+feat+"/"+classify(o.Malformed[0]), detail())
			return
		}
		c.Violate(i, fmt.Sprintf("size-rejection-with-code-%s/%s", codeName(o.Code), feat), detail())
		return
	}
	// the oversized message must not have been delivered intact next to the error
	if dirReq && family != "big-error" && e.Backend.Obs.Invocations > 0 {
		for k, got := range e.Backend.Obs.Msgs {
			if got != nil && k == len(creq.Msgs)-1 && proto.Equal(got, creq.Msgs[k]) && len(reqPlain[k]) > int(limit) {
				c.Violate(i, "oversized-request-message-delivered/"+feat, detail())
			}
		}
	}
}

// c10DeclaredLength: an envelope (or Content-Length) that announces far more than the limit, followed by a few bytes.
// Nothing that large may be reserved on the strength of the announcement; a calibration run is pointless (the body is
// short under any limit), so only the memory clause and the absence of a panic are judged, and the outcome must not be OK.
func c10DeclaredLength(c *Ctx, i int, r *rand.Rand, cfg *SvcConfig, creq *ClientReq, script *BackendScript, L uint32) {
	announce := pick(r, []uint32{L + 1, 10 * L, 64 << 20, 1 << 30, 0xFFFFFFFF})
	dirReq := chance(r, 60)
	flag := byte(0)
	if chance(r, 50) {
		flag = 1
	}
	var hdr [5]byte
	hdr[0] = flag
	hdr[1], hdr[2], hdr[3], hdr[4] = byte(announce>>24), byte(announce>>16), byte(announce>>8), byte(announce)
	frame := append(hdr[:], []byte("tiny")...)
	if dirReq {
		if !creq.Form.Enveloped() {
			return
		}
		if flag == 1 {
			creq.Comp = "gzip"
		}
		creq.RawBody = frame
		creq.DeclLen = chance(r, 50)
		script.FailOnBad = true // like a real server, the backend refuses a body that ends inside a frame
	} else {
		if flag == 1 {
			script.Comp = "gzip"
		}
		script.UseRaw, script.RawBody, script.RawComplete = true, frame, false
	}
	cc := *cfg
	cc.Limit = L
	tc, terr := buildTranscoder(&cc, true)
	if terr != nil {
		return
	}
	c10MaxCap = 0
	c10Handed = c10Handed[:0]
	e, err := runRPC(&cc, creq, script, r, &execOpts{Transcoder: tc})
	if err != nil {
		return
	}
	maxCap := c10MaxCap
	for k, b := range c10Handed {
		if b.Cap() > maxCap {
			maxCap = b.Cap()
		}
		c10Handed[k] = nil
	}
	c.Eval()
	c.Count("memory-checked")
	c.Count("declared-length-checked")
	dir := map[bool]string{true: "request", false: "response"}[dirReq]
	detail := func() string {
		return fmt.Sprintf("limit L=%d; a %s frame with flag %d announces %d bytes and carries 4\nlargest pooled buffer capacity=%d (bound %d)\n%s", L, dir, flag, announce, maxCap, 4*int(L)+64<<10, e.Describe())
	}
	c.Nontrivial(fmt.Sprintf("declared|%d|%s|%d|%d|%s", L, dir, flag, announce, creq.Form))
	if e.Panic != nil {
		c.Violate(i, "transcoder-panic/"+panicSite(e.Stack), detail())
		return
	}
	if maxCap > 4*int(L)+64<<10 {
		c.Violate(i, "pooled-buffer-exceeds-bound/declared-length/"+dir, detail())
	}
	// (pass-through exchanges are the backend's own response, written straight to the server's writer)
	if !dirReq && !e.Backend.Obs.Direct && (script.Comp == "" || e.Backend.Obs.UsedComp != "") && e.Backend.Obs.Invocations > 0 && e.Backend.Obs.Proto != "connect-unary" && e.Backend.Obs.Proto != "rest" && e.Out.OK() {
		c.Violate(i, "short-frame-delivered-as-success/declared-length/"+dir, detail())
	}
	if dirReq && e.Out.OK() {
		c.Violate(i, "short-frame-delivered-as-success/declared-length/"+dir, detail())
	}
}

func maxInt(a, b int) int {
	if a > b {
		return a
	}
	return b
}

func repeatBool(v bool, n int) []bool {
	out := make([]bool, n)
	for i := range out {
		out[i] = v
	}
	return out
}
