package main

import (
	"context"
	"fmt"
	"math/rand/v2"
	"net/http"
	"strings"

	"connectrpc.com/vanguard"
	"google.golang.org/protobuf/proto"
	"google.golang.org/protobuf/reflect/protoreflect"
)

func init() {
	register(&Property{
		ID:    "C07",
		Level: "exploration",
		Rule: "strata by i mod 6: (0,1) REST client: message generated for a Kitchen rule, rendered by the reference renderer with random spec-permitted choices (JSON or proto field names, key order, '+' vs %20, " +
			"base64 flavours, enum by name or number) -> the backend-decoded message must equal the original, the response body must be the JSON of the response_body field; (2) REST backend: an RPC client's message is converted " +
			"to REST, the observed request is bound by the reference binder and must equal the original; (3) RPC -> REST -> RPC through two chained transcoders must be the identity; (4) ill-typed parameters " +
			"(non-numeric / fractional / out-of-range integers, unknown enum names, broken base64, broken RFC 3339, non-boolean words) in path variables and query strings must be rejected as invalid_argument (HTTP 400) without dispatch; " +
			"(5) unknown query keys: rejected unless DiscardUnknownQueryParams, then ignored. Messages that the reference renderer cannot express under the rule are 'not carriable': an error or faithful delivery is accepted, silent alteration is not. " +
			"non-trivial = the rule has a variable or a field-selector body and the message has a populated field outside the body; distinct by (stratum, rule, message shape)",
		Assume: []string{"reference renderer/binder in model_bind.go follow the google.api.http comments in http.proto", "one spelling per field per request; absent vs empty body-field messages are identified (one REST representation)"},
		N:      func(t string) int { return tierN(t, 18000, 360000) },
		Run:    runC07,
		MinimaFor: func(t string) map[string]int {
			return map[string]int{"rest-client-compared": tierN(t, 4000, 80000), "rest-backend-compared": tierN(t, 2000, 40000), "roundtrip-compared": tierN(t, 2000, 40000),
				"ill-typed-checked": tierN(t, 1400, 28000), "unknown-key-checked": tierN(t, 1200, 24000)}
		},
	})
}

var illTyped = map[protoreflect.Kind][]string{
	protoreflect.Int32Kind:    {"abc", "1.5", "2147483648", "-2147483649", "1e2", "0x10", "--1", "", "12abc"},
	protoreflect.Int64Kind:    {"abc", "1.5", "9223372036854775808", "1e2", ""},
	protoreflect.Uint32Kind:   {"-1", "4294967296", "abc", "1.5"},
	protoreflect.Uint64Kind:   {"-1", "18446744073709551616", "abc"},
	protoreflect.Sint32Kind:   {"abc", "2147483648"},
	protoreflect.Sint64Kind:   {"abc", "9223372036854775808"},
	protoreflect.Fixed32Kind:  {"-1", "4294967296"},
	protoreflect.Fixed64Kind:  {"-1", "abc"},
	protoreflect.Sfixed32Kind: {"abc", "2147483648"},
	protoreflect.Sfixed64Kind: {"abc"},
	protoreflect.BoolKind:     {"yes", "1", "TRUE", "maybe", ""},
	protoreflect.DoubleKind:   {"abc", "1e999", "1.2.3", "--1"},
	protoreflect.FloatKind:    {"abc", "1e999"},
	protoreflect.EnumKind:     {"ENUM_NOPE", "enum_value", "1.5"},
	protoreflect.BytesKind:    {"!!!!", "AQID*", "A"},
}

var illTypedWKT = map[string][]string{
	"google.protobuf.Timestamp":  {"yesterday", "2020-13-01T00:00:00Z", "2020-01-01", "1577836800"},
	"google.protobuf.Duration":   {"1 hour", "5", "1.5", "s"},
	"google.protobuf.Int32Value": {"abc", "1.5", "2147483648"},
	"google.protobuf.BoolValue":  {"yes", "1"},
	"google.protobuf.UInt64Value": {"-1", "abc"},
}

func c07Methods() []*MethodInfo {
	kitchen()
	var out []*MethodInfo
	for _, m := range kitchenList {
		if len(m.Rules) > 0 && m.Stream == stUnary {
			out = append(out, m)
		}
	}
	return out
}

func runC07(c *Ctx, i int, r *rand.Rand) {
	kitchen()
	ms := c07Methods()
	m := pick(r, ms)
	stratum := i % 6
	switch stratum {
	case 0, 1:
		c07RESTClient(c, i, r, m)
	case 2:
		c07RESTBackend(c, i, r, m)
	case 3:
		c07RoundTrip(c, i, r, m)
	case 4:
		c07IllTyped(c, i, r, m)
	case 5:
		c07UnknownKeys(c, i, r, m)
	}
}

func bindingShape(b *Binding, msg proto.Message) string {
	n := 0
	msg.ProtoReflect().Range(func(protoreflect.FieldDescriptor, protoreflect.Value) bool { n++; return true })
	return fmt.Sprintf("%s|%s|vars%d|body=%s|fields%d", b.Method.Name(), b.Template, len(b.Vars), b.Body, n)
}

func c07RESTClient(c *Ctx, i int, r *rand.Rand, m *MethodInfo) {
	b := pick(r, m.Rules)
	msg, rr, ch := genForBinding(r, b, "")
	if msg == nil {
		c.Count("rest-client:ungeneratable")
		return
	}
	quotedProbe := false
	if i%40 == 0 && b.Body != "*" && isParamValues(m.In()) {
		// a StringValue whose text starts and ends with a double quote (see known findings)
		pm := msg.ProtoReflect()
		fd := pm.Descriptor().Fields().ByName("string_value_wrapper")
		sv := pm.Mutable(fd).Message()
		sv.Set(sv.Descriptor().Fields().ByName("value"), protoreflect.ValueOfString("\"hello world\""))
		var err error
		if rr, err = renderREST(b, msg, r, ch); err != nil {
			return
		}
		quotedProbe = true
	}
	cfg := genConfig(r)
	creq := &ClientReq{Form: FREST, M: m, Codec: "json", Binding: b, Rest: rr, Render: ch, Msgs: []proto.Message{msg}, HTTP2: chance(r, 50), DeclLen: chance(r, 50)}
	if chance(r, 30) {
		creq.Comp = "gzip"
	}
	out := fixHTTPBody(genMessage(r, m.Out(), genOpts{density: pick(r, []int{3, 10, 30})}))
	script := &BackendScript{Msgs: []proto.Message{out}}
	e, err := runRPC(cfg, creq, script, r, &execOpts{Chunks: chunkPlan(r)})
	if err != nil {
		return
	}
	c.Eval()
	if i < 2 {
		c.Sample(map[string]any{"case": i, "stratum": "rest-client", "describe": e.Describe()})
	}
	bo, o := e.Backend.Obs, e.Out
	feat := "rest-client/" + m.Name
	detail := func() string { return fmt.Sprintf("rule: %s %s body=%q response_body=%q\n%s", b.HTTPMethod, b.Template, b.Body, b.RespBody, e.Describe()) }
	if e.Panic != nil {
		c.Violate(i, "transcoder-panic/"+panicSite(e.Stack), detail())
		return
	}
	if bo.Invocations == 0 || !o.OK() {
		c.Violate(i, "carriable-request-failed/"+feat, fmt.Sprintf("the reference renderer produced this request from a message, yet it failed\n%s", detail()))
		return
	}
	c.Count("rest-client-compared")
	if len(b.Vars) > 0 || (b.Body != "*" && b.Body != "") {
		c.Nontrivial("0|" + bindingShape(b, msg))
	}
	if d, k := seqDiff([]proto.Message{msg}, bo.Msgs, false, b.Body, bindBody(bo)); k == "value-null" {
		c.Count("value-null-tolerated")
	} else if d != "" {
		if quotedProbe {
			c.Violate(i, "quoted-StringValue-parameter-unquoted", fmt.Sprintf("%s\n%s", d, detail()))
			return
		}
		c.Violate(i, "request-binding-wrong/"+feat, fmt.Sprintf("backend-decoded message differs from the one the reference binder derives from the request: %s\n%s", d, detail()))
		return
	}
	want := restrictTo(out, b.RespBody)
	if bo.Proto == "rest" && bo.Binding != nil {
		want = restrictTo(restrictTo(out, bo.Binding.RespBody), b.RespBody)
	}
	if d, k := seqDiff([]proto.Message{want}, o.Msgs, false, b.RespBody); k == "value-null" {
		c.Count("value-null-tolerated")
	} else if d != "" {
		c.Violate(i, "response-body-wrong/"+feat, fmt.Sprintf("client-decoded response body differs from the JSON of the response_body field: %s\n%s", d, detail()))
	}
}

func bindBody(bo *BackendObs) string {
	if bo.Binding != nil {
		return bo.Binding.Body
	}
	return ""
}

func c07RESTBackend(c *Ctx, i int, r *rand.Rand, m *MethodInfo) {
	b := m.Rules[0] // the transcoder issues requests under the primary binding
	msg, _, _ := genForBinding(r, b, "")
	carriable := msg != nil
	if msg == nil || chance(r, 15) {
		msg = genMessage(r, m.In(), genOpts{density: pick(r, []int{5, 20})})
		_, err := renderREST(b, msg, r, renderChoices{})
		carriable = err == nil
	} else if chance(r, 12) {
		// a value that almost fits a multi-segment variable: no URL under the rule can carry it
		for _, v := range b.Vars {
			if leaf := v.Fields[len(v.Fields)-1]; leaf.Kind() == protoreflect.StringKind {
				if nm, ok := nearMissForVar(r, b, v); ok {
					setLeaf(msg.ProtoReflect(), v.Fields, protoreflect.ValueOfString(nm))
					_, err := renderREST(b, msg, r, renderChoices{})
					carriable = err == nil
					c.Count("near-miss-path-value")
					break
				}
			}
		}
	}
	cfg := &SvcConfig{Protocols: []string{"rest"}, Codecs: pick(r, [][]string{{"json"}, {"proto"}, {"proto", "json"}}), Comps: pick(r, [][]string{{}, {"gzip"}})}
	forms := []ClientForm{FConnectUnary, FGRPC, FGRPCWeb}
	if m.Idem == idemNSE {
		forms = append(forms, FConnectGet)
	}
	form := pick(r, forms)
	creq := &ClientReq{Form: form, M: m, Codec: pick(r, []string{"proto", "json"}), Msgs: []proto.Message{msg}, HTTP2: true, GetViaQuery: true, Comp: pick(r, []string{"", "gzip"}), FrameComp: []bool{true}}
	if creq.Codec == "json" && !jsonCarriable(msg) {
		return
	}
	out := fixHTTPBody(genMessage(r, m.Out(), genOpts{density: pick(r, []int{3, 10, 30})}))
	script := &BackendScript{Msgs: []proto.Message{out}, ReadBuf: pick(r, []int{0, 3, 64})}
	e, err := runRPC(cfg, creq, script, r, nil)
	if err != nil {
		return
	}
	c.Eval()
	bo, o := e.Backend.Obs, e.Out
	feat := "rest-backend/" + m.Name
	detail := func() string { return fmt.Sprintf("rule: %s %s body=%q response_body=%q carriable=%v\n%s", b.HTTPMethod, b.Template, b.Body, b.RespBody, carriable, e.Describe()) }
	if e.Panic != nil {
		c.Violate(i, "transcoder-panic/"+panicSite(e.Stack), detail())
		return
	}
	if !o.OK() {
		if carriable {
			c.Violate(i, "carriable-message-not-converted/"+feat, detail())
		} else {
			c.Count("not-carriable-rejected")
		}
		return
	}
	c.Count("rest-backend-compared")
	c.Nontrivial("2|" + bindingShape(b, msg))
	if !carriable {
		// the reference renderer cannot express this message under the rule (e.g. an empty path segment, a
		// present-but-empty sub-message): delivery is acceptable as long as nothing else was altered
		c.Count("not-carriable-delivered")
		if len(bo.Msgs) == 1 && bo.Msgs[0] != nil {
			a, g := pruneEmptyMsgs(msg), pruneEmptyMsgs(bo.Msgs[0])
			if d, k := seqDiff([]proto.Message{a}, []proto.Message{g}, false, b.Body); d != "" && k != "value-null" {
				c.Violate(i, "not-carriable-message-silently-altered/"+feat, fmt.Sprintf("%s\n%s", d, detail()))
			}
		}
		return
	}
	if len(bo.Bad) > 0 {
		c.Violate(i, "rest-request-does-not-reparse/"+feat, fmt.Sprintf("%v\n%s", bo.Bad, detail()))
		return
	}
	if d, k := seqDiff([]proto.Message{msg}, bo.Msgs, false, b.Body); k == "value-null" {
		c.Count("value-null-tolerated")
	} else if d != "" {
		c.Violate(i, "rest-request-is-not-the-inverse/"+feat, fmt.Sprintf("re-parsing the REST request under the same rule does not give the original message: %s\n%s", d, detail()))
	}
}

// chained transcoders: client --RPC--> T1 (REST target) --REST--> T2 (REST client side) --Connect--> backend
func c07RoundTrip(c *Ctx, i int, r *rand.Rand, m *MethodInfo) {
	b := m.Rules[0]
	msg, _, _ := genForBinding(r, b, "")
	if msg == nil {
		return
	}
	sd, _ := kitchen()
	t2, err := buildTranscoder(&SvcConfig{Protocols: []string{"connect"}, Codecs: []string{"proto"}, Comps: []string{"gzip"}}, false)
	if err != nil {
		c.Violate(i, "harness/config", err.Error())
		return
	}
	svc := vanguard.NewServiceWithSchema(sd, t2, vanguard.WithTargetProtocols(vanguard.ProtocolREST), vanguard.WithTargetCodecs("json"), vanguard.WithTargetCompression("gzip"))
	t1, err := cachedT1(svc)
	if err != nil {
		c.Violate(i, "harness/config", err.Error())
		return
	}
	form := pick(r, []ClientForm{FConnectUnary, FGRPC, FGRPCWeb})
	creq := &ClientReq{Form: form, M: m, Codec: pick(r, []string{"proto", "json"}), Msgs: []proto.Message{msg}, HTTP2: true, Comp: pick(r, []string{"", "gzip"}), FrameComp: []bool{true}, Accept: pick(r, [][]string{nil, {"gzip"}})}
	if creq.Codec == "json" && !jsonCarriable(msg) {
		return
	}
	out := fixHTTPBody(genMessage(r, m.Out(), genOpts{density: pick(r, []int{3, 10, 30})}))
	script := &BackendScript{Msgs: []proto.Message{out}, Comp: pick(r, []string{"", "gzip"})}
	e, err := runRPC(&SvcConfig{Protocols: []string{"rest"}, Codecs: []string{"json"}, Comps: []string{"gzip"}}, creq, script, r, &execOpts{Transcoder: t1})
	if err != nil {
		return
	}
	c.Eval()
	bo, o := e.Backend.Obs, e.Out
	feat := "roundtrip/" + m.Name
	detail := func() string { return fmt.Sprintf("rule: %s %s body=%q response_body=%q\n%s", b.HTTPMethod, b.Template, b.Body, b.RespBody, e.Describe()) }
	if e.Panic != nil {
		c.Violate(i, "transcoder-panic/"+panicSite(e.Stack), detail())
		return
	}
	if !o.OK() || bo.Invocations != 1 {
		c.Violate(i, "carriable-roundtrip-failed/"+feat, detail())
		return
	}
	c.Count("roundtrip-compared")
	c.Nontrivial("3|" + bindingShape(b, msg))
	if d, k := seqDiff([]proto.Message{msg}, bo.Msgs, false, b.Body); k == "value-null" {
		c.Count("value-null-tolerated")
	} else if d != "" {
		c.Violate(i, "roundtrip-not-identity/request/"+feat, fmt.Sprintf("%s\n%s", d, detail()))
		return
	}
	want := restrictTo(out, b.RespBody)
	if d, k := seqDiff([]proto.Message{want}, o.Msgs, false, b.RespBody); k == "value-null" {
		c.Count("value-null-tolerated")
	} else if d != "" {
		c.Violate(i, "roundtrip-not-identity/response/"+feat, fmt.Sprintf("%s\n%s", d, detail()))
	}
}

var t1Cache struct {
	t *vanguard.Transcoder
}

func cachedT1(svc *vanguard.Service) (*vanguard.Transcoder, error) {
	tcMu.Lock()
	defer tcMu.Unlock()
	if t1Cache.t != nil {
		return t1Cache.t, nil
	}
	t, err := vanguard.NewTranscoder([]*vanguard.Service{svc})
	if err == nil {
		t1Cache.t = t
	}
	return t, err
}

// leafFields lists (path, leaf) pairs of parameter-typed singular fields reachable without repeated/map hops.
func paramLeaves(md protoreflect.MessageDescriptor, prefix string, depth int) [][2]any {
	var out [][2]any
	fs := md.Fields()
	for i := 0; i < fs.Len(); i++ {
		fd := fs.Get(i)
		if fd.IsMap() {
			continue
		}
		name := prefix + fd.JSONName()
		if fd.Message() != nil && !isScalarWKT(fd.Message()) {
			if depth > 0 && !fd.IsList() && !isWKT(fd.Message()) {
				out = append(out, paramLeaves(fd.Message(), name+".", depth-1)...)
			}
			continue
		}
		out = append(out, [2]any{name, fd})
	}
	return out
}

func c07IllTyped(c *Ctx, i int, r *rand.Rand, m *MethodInfo) {
	b := pick(r, m.Rules)
	msg, rr, _ := genForBinding(r, b, "")
	if msg == nil {
		return
	}
	// choose a target: a path variable of non-string type, or a query parameter
	target := *rr
	what := ""
	var bad string
	varIdx := -1
	for k, v := range b.Vars {
		leaf := v.Fields[len(v.Fields)-1]
		if leaf.Kind() != protoreflect.StringKind && chance(r, 50) {
			varIdx = k
			bad = pick(r, illTyped[leaf.Kind()])
			what = fmt.Sprintf("path variable %s (%s) = %q", v.FieldPath, leaf.Kind(), bad)
			break
		}
	}
	if varIdx >= 0 {
		if bad == "" {
			return // an empty segment is a routing matter
		}
		v := b.Vars[varIdx]
		segs := strings.Split(strings.TrimPrefix(rr.RawPath, "/"), "/")
		if v.End-v.Start != 1 || v.Start >= len(segs) {
			return
		}
		last := len(segs) - 1
		verb := ""
		if b.Verb != "" && v.Start == last {
			verb = ":" + b.Verb
		}
		segs[v.Start] = escSeg(bad) + verb
		target.RawPath = "/" + strings.Join(segs, "/")
	} else {
		if b.Body == "*" {
			return // no query parameters are bound
		}
		leaves := paramLeaves(m.In(), "", 1)
		lf := pick(r, leaves)
		fd := lf[1].(protoreflect.FieldDescriptor)
		var pool []string
		if fd.Message() != nil {
			pool = illTypedWKT[string(fd.Message().FullName())]
		} else {
			pool = illTyped[fd.Kind()]
		}
		if len(pool) == 0 {
			return
		}
		bad = pick(r, pool)
		if bad == "" && (fd.Kind() == protoreflect.BoolKind || fd.Message() != nil) {
			return
		}
		key := lf[0].(string)
		// drop any existing value for that key, then add the bad one
		var kept []string
		for _, p := range strings.Split(rr.RawQuery, "&") {
			if p != "" && !strings.HasPrefix(p, escQuery(key, false)+"=") && !strings.HasPrefix(p, string(fd.Name())+"=") {
				kept = append(kept, p)
			}
		}
		kept = append(kept, escQuery(key, false)+"="+escQuery(bad, false))
		target.RawQuery = strings.Join(kept, "&")
		what = fmt.Sprintf("query parameter %s (%s) = %q", key, fd.Kind(), bad)
	}
	cfg := genConfigNoREST(r) // the transcoder itself must bind the parameters (no REST pass-through)
	creq := &ClientReq{Form: FREST, M: m, Codec: "json", Binding: b, Rest: &target, Msgs: []proto.Message{msg}, HTTP2: chance(r, 50)}
	script := &BackendScript{Msgs: []proto.Message{genMessage(r, m.Out(), genOpts{density: 3})}}
	e, err := runRPC(cfg, creq, script, r, nil)
	if err != nil {
		return
	}
	c.Eval()
	c.Count("ill-typed-checked")
	c.Nontrivial("4|" + m.Name + "|" + what)
	bo, o := e.Backend.Obs, e.Out
	detail := func() string { return fmt.Sprintf("ill-typed %s\nrule: %s %s\n%s", what, b.HTTPMethod, b.Template, e.Describe()) }
	if e.Panic != nil {
		c.Violate(i, "transcoder-panic/"+panicSite(e.Stack), detail())
		return
	}
	if o.OK() {
		c.Violate(i, "ill-typed-parameter-accepted/"+kindOf(what), detail())
		return
	}
	if !(o.Status == 400 && (o.Kind == "httperror" || o.Code == 3)) {
		c.Violate(i, fmt.Sprintf("ill-typed-parameter-wrong-error/status%d-code%d", o.Status, o.Code), detail())
	}
	// the backend must not have been given a message built from the bad value
	if bo.Invocations > 0 && len(bo.Msgs) > 0 && bo.Msgs[0] != nil && bo.ReadErr == nil && len(bo.Bad) == 0 {
		c.Violate(i, "ill-typed-parameter-reached-backend", detail())
	}
}

func kindOf(what string) string {
	if i := strings.Index(what, "("); i >= 0 {
		if j := strings.Index(what[i:], ")"); j > 0 {
			return what[:strings.Index(what, " ")] + "-" + what[i+1:i+j]
		}
	}
	return "param"
}

func c07UnknownKeys(c *Ctx, i int, r *rand.Rand, m *MethodInfo) {
	b := pick(r, m.Rules)
	if b.Body == "*" {
		b = m.Rules[0]
	}
	msg, rr, _ := genForBinding(r, b, "")
	if msg == nil {
		return
	}
	discard := chance(r, 50)
	cfg := genConfigNoREST(r)
	cfg.DiscardUnknownQuery = discard
	target := *rr
	extra := pick(r, []string{"no_such_field=1", "noSuchField=x&alsoNot=y", "string_value.x=1", "nested.nope=2", "%24alt=json", "fields=a,b", "key=AIza", "x="})
	if target.RawQuery != "" {
		target.RawQuery += "&"
	}
	target.RawQuery += extra
	creq := &ClientReq{Form: FREST, M: m, Codec: "json", Binding: b, Rest: &target, Msgs: []proto.Message{msg}, HTTP2: chance(r, 50)}
	script := &BackendScript{Msgs: []proto.Message{genMessage(r, m.Out(), genOpts{density: 3})}}
	e, err := runRPC(cfg, creq, script, r, nil)
	if err != nil {
		return
	}
	c.Eval()
	c.Count("unknown-key-checked")
	c.Nontrivial(fmt.Sprintf("5|%s|%s|%v", m.Name, extra, discard))
	bo, o := e.Backend.Obs, e.Out
	detail := func() string { return fmt.Sprintf("extra query %q discard=%v\nrule: %s %s body=%q\n%s", extra, discard, b.HTTPMethod, b.Template, b.Body, e.Describe()) }
	if e.Panic != nil {
		c.Violate(i, "transcoder-panic/"+panicSite(e.Stack), detail())
		return
	}
	partiallyKnown := strings.HasPrefix(extra, "string_value.") || strings.HasPrefix(extra, "nested.")
	if b.Body == "*" {
		return // all fields are in the body; whether stray query keys are looked at is not specified
	}
	if discard && !partiallyKnown {
		if !o.OK() {
			c.Violate(i, "unknown-query-key-not-discarded", detail())
			return
		}
		if d, k := seqDiff([]proto.Message{msg}, bo.Msgs, false, b.Body, bindBody(bo)); d != "" && k != "value-null" {
			c.Violate(i, "unknown-query-key-altered-message", fmt.Sprintf("%s\n%s", d, detail()))
		}
		return
	}
	if !discard && o.OK() {
		c.Violate(i, "unknown-query-key-accepted", detail())
	}
}

var _ = context.Background
var _ http.Header

func genConfigNoREST(r *rand.Rand) *SvcConfig {
	for {
		cfg := genConfig(r)
		if !cfg.HasProtocol("rest") {
			return cfg
		}
	}
}

// fixHTTPBody gives an HttpBody a content type: a REST response always has one, so an empty one cannot survive.
func fixHTTPBody(msg proto.Message) proto.Message {
	m := msg.ProtoReflect()
	if isHTTPBodyMsg(m.Descriptor()) {
		fd := m.Descriptor().Fields().ByName("content_type")
		if m.Get(fd).String() == "" {
			m.Set(fd, protoreflect.ValueOfString("application/octet-stream"))
		}
	}
	return msg
}

// pruneEmptyMsgs removes present-but-empty singular sub-messages (recursively): URL parameters cannot express them.
func pruneEmptyMsgs(msg proto.Message) proto.Message {
	c := proto.Clone(msg)
	pruneEmptyRec(c.ProtoReflect())
	return c
}

func pruneEmptyRec(m protoreflect.Message) {
	m.Range(func(fd protoreflect.FieldDescriptor, v protoreflect.Value) bool {
		if fd.Message() == nil || fd.IsList() || fd.IsMap() {
			return true
		}
		sub := v.Message()
		pruneEmptyRec(sub)
		empty := true
		sub.Range(func(protoreflect.FieldDescriptor, protoreflect.Value) bool { empty = false; return false })
		if empty {
			m.Clear(fd)
		}
		return true
	})
}

func isParamValues(md protoreflect.MessageDescriptor) bool {
	return md.FullName() == "vanguard.test.v1.ParameterValues"
}
