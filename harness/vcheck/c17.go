package main

import (
	"context"
	"fmt"
	"math/rand/v2"
	"net/http"
	"strings"
	"sync"

	"connectrpc.com/vanguard"
	"google.golang.org/genproto/googleapis/api/annotations"
	"google.golang.org/protobuf/proto"
	"google.golang.org/protobuf/reflect/protoreflect"
)

func init() {
	register(&Property{
		ID:    "C17",
		Level: "exploration",
		Rule: "case i = a valid base configuration (1..2 services from {Kitchen, Router, Sel, One}, valid service/default options, 0..3 non-overlapping WithRules rules; a service whose bindings come from WithRules is REST-only in a third of the cases) plus, in 60% of the cases, one mutation with a known reason " +
			"to be refused: unknown codec / compression name, empty protocol or codec set, invalid protocol value, the same service twice, template syntax errors (by the reference grammar), two bindings with the same HTTP method and template, " +
			"body / response_body / variable selectors naming a missing, nested, repeated or map field, selector matching no method, missing selector, wildcard not at a name boundary or not at the end, nested additional_bindings, " +
			"REST-only service without bindings, zero limits. oracle: refused classes => err != nil and a nil *Transcoder; everything else => err == nil and then SERVED AS CONFIGURED: every binding reachable through the URL rendered " +
			"from its template and landing on the method it was declared on; an exact selector binds exactly the named method (probed with methods sharing a name prefix) and a 'prefix.*' selector the methods under it; " +
			"per-service options beat defaults (checked on the wire form the backend sees). Open categories (message-typed path variable) are counted only. " +
			"non-trivial = at least two services or one WithRules rule; distinct by (mutation class, services, rules)",
		Assume: []string{"reference template grammar in model_rest.go"},
		N:      func(t string) int { return tierN(t, 6000, 120000) },
		Run:    runC17,
		MinimaFor: func(t string) map[string]int {
			return map[string]int{"refusal-classes-checked": tierN(t, 2500, 50000), "accepted-configs-probed": tierN(t, 1800, 36000), "binding-probes": tierN(t, 2500, 50000)}
		},
	})
}

var (
	selOnce sync.Once
	selSvc  protoreflect.ServiceDescriptor
	selMs   []*MethodInfo
	oneSvc  protoreflect.ServiceDescriptor
	oneMs   []*MethodInfo
)

func selServices() {
	selOnce.Do(func() {
		fd := buildServiceFile("verif/v1/sel.proto", "verif.v1", "Sel", []kitchenMethod{
			{name: "Get", in: tParam, out: tParam}, {name: "GetBook", in: tParam, out: tParam}, {name: "GetBookList", in: tParam, out: tParam}, {name: "List", in: tParam, out: tParam}})
		selSvc = fd.Services().Get(0)
		_, selMs = methodInfos(selSvc)
		fd2 := buildServiceFile("verif/one/one.proto", "verif.one", "One", []kitchenMethod{{name: "Only", in: tParam, out: tParam}})
		oneSvc = fd2.Services().Get(0)
		_, oneMs = methodInfos(oneSvc)
	})
}

type c17Svc struct {
	name  string
	sd    protoreflect.ServiceDescriptor
	ms    []*MethodInfo
	protos []string
	codecs []string
	comps  []string
	opts   []vanguard.ServiceOption
}

type c17Cfg struct {
	svcs     []*c17Svc
	defaults []vanguard.ServiceOption
	defProto []string
	rules    []*annotations.HttpRule
	ruleFor  map[*annotations.HttpRule][]*MethodInfo // methods a rule is expected to bind
	reject   string
	open     string
	topts    []vanguard.TranscoderOption
}

func c17Protocols(names []string) []vanguard.Protocol {
	var out []vanguard.Protocol
	for _, n := range names {
		out = append(out, protoByName[n])
	}
	return out
}

func genC17(r *rand.Rand) *c17Cfg {
	kitchen()
	routerService()
	selServices()
	cfg := &c17Cfg{ruleFor: map[*annotations.HttpRule][]*MethodInfo{}}
	ksd, _ := kitchen()
	rsd, rms := routerService()
	pool := []*c17Svc{{name: "Kitchen", sd: ksd, ms: kitchenList}, {name: "Router", sd: rsd, ms: rms}, {name: "Sel", sd: selSvc, ms: selMs}, {name: "One", sd: oneSvc, ms: oneMs}}
	r.Shuffle(len(pool), func(i, j int) { pool[i], pool[j] = pool[j], pool[i] })
	for _, s := range pool[:1+r.IntN(2)] {
		s.protos = pick(r, [][]string{{"connect"}, {"grpc"}, {"grpcweb"}, {"connect", "grpc"}, {"connect", "grpc", "grpcweb"}})
		s.codecs = pick(r, [][]string{{"proto"}, {"json"}, {"proto", "json"}})
		s.comps = pick(r, [][]string{{}, {"gzip"}})
		cfg.svcs = append(cfg.svcs, s)
	}
	// defaults that differ from the per-service choice (override must win)
	cfg.defProto = []string{pick(r, []string{"grpc", "grpcweb", "connect"})}
	cfg.defaults = []vanguard.ServiceOption{vanguard.WithTargetProtocols(c17Protocols(cfg.defProto)...), vanguard.WithTargetCodecs(pick(r, []string{"proto", "json"}))}
	// non-overlapping rules: a unique literal prefix per rule
	nrules := r.IntN(4)
	k := 0
	for _, s := range cfg.svcs {
		if s.name == "Kitchen" {
			continue // has annotations of its own; rules are added to the others
		}
		for _, m := range s.ms {
			if k >= nrules {
				break
			}
			if !chance(r, 50) {
				continue
			}
			tmpl := fmt.Sprintf("/c17/r%d/{string_value}", k)
			if chance(r, 30) {
				tmpl = fmt.Sprintf("/c17/r%d/{string_value=a/*}/{recursive.string_value}:do", k)
			}
			var rule *annotations.HttpRule
			switch r.IntN(3) {
			case 0:
				rule = ruleGet(tmpl)
			case 1:
				rule = rulePost(tmpl, "*")
			default:
				rule = rulePut(tmpl, "nested")
			}
			rule.Selector = string(m.Desc.FullName())
			expect := []*MethodInfo{m}
			if s.name == "One" && chance(r, 50) {
				rule.Selector = pick(r, []string{"verif.one.One.*", "verif.one.*"})
			}
			cfg.rules = append(cfg.rules, rule)
			cfg.ruleFor[rule] = expect
			k++
		}
	}
	// a service without annotations of its own whose bindings all come from WithRules may be REST-only
	for _, s := range cfg.svcs {
		if s.name != "Kitchen" && len(cfg.boundBy(s)) > 0 && chance(r, 35) {
			s.protos = []string{"rest"}
			s.codecs = pick(r, [][]string{{"json"}, {"proto", "json"}})
		}
	}
	return cfg
}

func (cfg *c17Cfg) svcOf(m *MethodInfo) *c17Svc {
	for _, s := range cfg.svcs {
		if m.Desc.Parent() == s.sd {
			return s
		}
	}
	return nil
}

// boundBy lists the methods of s that some WithRules rule binds.
func (cfg *c17Cfg) boundBy(s *c17Svc) []*MethodInfo {
	var out []*MethodInfo
	for _, rule := range cfg.rules {
		for _, m := range cfg.ruleFor[rule] {
			if m.Desc.Parent() == s.sd {
				out = append(out, m)
			}
		}
	}
	return out
}

func (cfg *c17Cfg) hasSvc(name string) *c17Svc {
	for _, s := range cfg.svcs {
		if s.name == name {
			return s
		}
	}
	return nil
}

var badTemplates = []string{"", "v1/x", "/v1/{string_value", "/v1/**/x", "/v1//x", "/v1/{string_value}/{string_value}", "/{}", "/v1/x:", "/v1/{string_value=}", "/v1/{1abc}", "/v1/x y", "/v1/{string_value}}", "/v1/*/**/*"}

// mutate injects one reason to refuse the configuration.
func (cfg *c17Cfg) mutate(r *rand.Rand) {
	s := pick(r, cfg.svcs)
	nonKitchen := s
	for _, x := range cfg.svcs {
		if x.name != "Kitchen" {
			nonKitchen = x
		}
	}
	target := pick(r, nonKitchen.ms)
	sel := string(target.Desc.FullName())
	addRule := func(rule *annotations.HttpRule) { cfg.rules = append(cfg.rules, rule) }
	classes := []string{"unknown-codec", "unknown-compression", "no-protocols", "no-codecs", "invalid-protocol", "service-twice", "template-syntax", "duplicate-binding", "body-missing-field",
		"body-nested-path", "response-body-missing-field", "variable-missing-field", "variable-repeated-field", "variable-map-field", "variable-through-repeated", "selector-matches-nothing", "selector-missing",
		"wildcard-not-at-boundary", "wildcard-not-at-end", "nested-additional-bindings", "rest-only-without-bindings", "zero-buffer-limit", "zero-url-limit", "blank-custom-kind",
		"default-unknown-codec", "open:message-typed-variable"}
	class := pick(r, classes)
	cfg.reject = class
	switch class {
	case "unknown-codec":
		s.opts = append(s.opts, vanguard.WithTargetCodecs("proto", "yaml"))
	case "unknown-compression":
		s.opts = append(s.opts, vanguard.WithTargetCompression("br"))
	case "no-protocols":
		s.opts = append(s.opts, vanguard.WithTargetProtocols())
	case "no-codecs":
		s.opts = append(s.opts, vanguard.WithTargetCodecs())
	case "invalid-protocol":
		s.opts = append(s.opts, vanguard.WithTargetProtocols(vanguard.Protocol(pick(r, []int{0, 5, 99, -1}))))
	case "service-twice":
		cfg.svcs = append(cfg.svcs, &c17Svc{name: s.name, sd: s.sd, ms: s.ms, protos: s.protos, codecs: s.codecs, comps: s.comps})
	case "template-syntax":
		rule := ruleGet(pick(r, badTemplates))
		rule.Selector = sel
		addRule(rule)
	case "duplicate-binding":
		a, b := ruleGet("/c17/dup/{string_value}"), ruleGet("/c17/dup/{recursive.string_value}")
		a.Selector, b.Selector = sel, string(pick(r, nonKitchen.ms).Desc.FullName())
		addRule(a)
		addRule(b)
	case "body-missing-field":
		rule := rulePost("/c17/m/x", "no_such_field")
		rule.Selector = sel
		addRule(rule)
	case "body-nested-path":
		rule := rulePost("/c17/m/x", "recursive.nested")
		rule.Selector = sel
		addRule(rule)
	case "response-body-missing-field":
		rule := withResp(ruleGet("/c17/m/x"), "nope")
		rule.Selector = sel
		addRule(rule)
	case "variable-missing-field":
		rule := ruleGet("/c17/m/{no_such_field}")
		rule.Selector = sel
		addRule(rule)
	case "variable-repeated-field":
		rule := ruleGet("/c17/m/{double_list}")
		rule.Selector = sel
		addRule(rule)
	case "variable-map-field":
		rule := ruleGet("/c17/m/{string_map}")
		rule.Selector = sel
		addRule(rule)
	case "variable-through-repeated":
		rule := ruleGet("/c17/m/{recursive_list.string_value}")
		rule.Selector = sel
		addRule(rule)
	case "selector-matches-nothing":
		rule := ruleGet("/c17/m/x")
		rule.Selector = pick(r, []string{"verif.v1.Nope.Method", sel + "x", "verif.v9.*", strings.ToLower(sel)})
		addRule(rule)
	case "selector-missing":
		addRule(ruleGet("/c17/m/x"))
	case "wildcard-not-at-boundary":
		rule := ruleGet("/c17/m/x")
		rule.Selector = sel[:len(sel)-1] + "*"
		addRule(rule)
	case "wildcard-not-at-end":
		rule := ruleGet("/c17/m/x")
		rule.Selector = "verif.*.Sel.Get"
		addRule(rule)
	case "nested-additional-bindings":
		rule := withExtra(ruleGet("/c17/m/x"), withExtra(ruleGet("/c17/m/y"), ruleGet("/c17/m/z")))
		rule.Selector = sel
		addRule(rule)
	case "rest-only-without-bindings":
		// Router/Sel/One have no annotations; make one of them REST-only without giving it any rule
		if nonKitchen.name == "Kitchen" {
			cfg.reject = ""
			return
		}
		var kept []*annotations.HttpRule
		for _, rule := range cfg.rules {
			bound := false
			for _, m := range cfg.ruleFor[rule] {
				if m.Desc.Parent() == nonKitchen.sd {
					bound = true
				}
			}
			if !bound {
				kept = append(kept, rule)
			}
		}
		cfg.rules = kept
		nonKitchen.protos = []string{"rest"}
	case "zero-buffer-limit":
		s.opts = append(s.opts, vanguard.WithMaxMessageBufferBytes(0))
	case "zero-url-limit":
		s.opts = append(s.opts, vanguard.WithMaxGetURLBytes(0))
	case "blank-custom-kind":
		rule := ruleCustom("", "/c17/m/x", "")
		rule.Selector = sel
		addRule(rule)
	case "default-unknown-codec":
		cfg.defaults = append(cfg.defaults, vanguard.WithTargetCodecs("msgpack"))
		for _, x := range cfg.svcs {
			x.codecs = nil // services inherit the broken default
		}
	case "open:message-typed-variable":
		rule := ruleGet("/c17/m/{nested}")
		rule.Selector = sel
		addRule(rule)
		cfg.reject, cfg.open = "", class
	}
}

func (cfg *c17Cfg) build() (*vanguard.Transcoder, error) {
	var svcs []*vanguard.Service
	for _, s := range cfg.svcs {
		var opts []vanguard.ServiceOption
		if len(s.protos) > 0 {
			opts = append(opts, vanguard.WithTargetProtocols(c17Protocols(s.protos)...))
		}
		if len(s.codecs) > 0 {
			opts = append(opts, vanguard.WithTargetCodecs(s.codecs...))
		}
		if s.comps != nil {
			opts = append(opts, vanguard.WithTargetCompression(s.comps...))
		}
		opts = append(opts, s.opts...)
		svcs = append(svcs, vanguard.NewServiceWithSchema(s.sd, dispatcher, opts...))
	}
	topts := []vanguard.TranscoderOption{vanguard.WithDefaultServiceOptions(cfg.defaults...)}
	if len(cfg.rules) > 0 {
		var rules []*annotations.HttpRule
		for _, rule := range cfg.rules {
			rules = append(rules, proto.Clone(rule).(*annotations.HttpRule))
		}
		topts = append(topts, vanguard.WithRules(rules...))
	}
	return vanguard.NewTranscoder(svcs, topts...)
}

func (cfg *c17Cfg) describe() string {
	var sb strings.Builder
	for _, s := range cfg.svcs {
		fmt.Fprintf(&sb, "service %s protocols=%v codecs=%v comps=%v extra-options=%d\n", s.name, s.protos, s.codecs, s.comps, len(s.opts))
	}
	fmt.Fprintf(&sb, "default protocols=%v\n", cfg.defProto)
	for _, rule := range cfg.rules {
		hm, t := rulePattern(rule)
		fmt.Fprintf(&sb, "rule selector=%q %s %q body=%q response_body=%q additional=%d\n", rule.Selector, hm, t, rule.Body, rule.ResponseBody, len(rule.AdditionalBindings))
	}
	fmt.Fprintf(&sb, "expected refusal: %q open category: %q\n", cfg.reject, cfg.open)
	return sb.String()
}

func runC17(c *Ctx, i int, r *rand.Rand) {
	cfg := genC17(r)
	if chance(r, 60) {
		cfg.mutate(r)
	}
	var t *vanguard.Transcoder
	var err error
	var panicked any
	func() {
		defer func() { panicked = recover() }()
		t, err = cfg.build()
	}()
	c.Eval()
	if i < 3 {
		c.Sample(map[string]any{"case": i, "config": cfg.describe(), "error": fmt.Sprint(err)})
	}
	if len(cfg.svcs) > 1 || len(cfg.rules) > 0 {
		c.Nontrivial(fmt.Sprintf("%s|%d|%d|%s", cfg.reject+cfg.open, len(cfg.svcs), len(cfg.rules), cfg.describe()))
	}
	if panicked != nil {
		c.Violate(i, "NewTranscoder-panicked/"+cfg.reject, fmt.Sprintf("%v\n%s", panicked, cfg.describe()))
		return
	}
	if cfg.reject != "" {
		c.Count("refusal-classes-checked")
		c.Count("class:" + cfg.reject)
		if err == nil {
			c.Violate(i, "unservable-configuration-accepted/"+cfg.reject, cfg.describe())
		} else if t != nil {
			c.Violate(i, "error-and-transcoder-returned/"+cfg.reject, cfg.describe())
		}
		return
	}
	if cfg.open != "" {
		c.Count(fmt.Sprintf("%s:accepted=%v", cfg.open, err == nil))
		return
	}
	if err != nil {
		c.Violate(i, "servable-configuration-refused", fmt.Sprintf("error: %v\n%s", err, cfg.describe()))
		return
	}
	c.Count("accepted-configs-probed")
	// (a)+(b) every binding reachable and landing on the declared method(s) only
	for _, rule := range cfg.rules {
		for _, m := range cfg.ruleFor[rule] {
			b, berr := bindingFromRule(m.Desc, rule)
			if berr != nil {
				continue
			}
			msg, rr, _ := genForBinding(r, b, "")
			if msg == nil {
				continue
			}
			o := c17Probe(t, rr)
			c.Eval()
			c.Count("binding-probes")
			if svc := cfg.svcOf(m); svc != nil && len(svc.protos) == 1 && svc.protos[0] == "rest" {
				// a REST-only service is handed the REST request itself: recognise the rule by its unique literal prefix
				_, tmpl := rulePattern(rule)
				if prefix := tmpl[:strings.Index(tmpl, "{")]; o.method != "" && strings.HasPrefix(o.method, prefix) {
					continue
				}
			}
			if o.method != m.Path {
				c.Violate(i, "binding-not-served-as-configured", fmt.Sprintf("rule %s %s declared on %s: request %s %s observed %s\n%s", b.HTTPMethod, b.Template, m.Path, rr.Method, rr.RawPath, o, cfg.describe()))
			}
		}
	}
	// annotations of Kitchen stay reachable
	if cfg.hasSvc("Kitchen") != nil {
		m := pick(r, c07Methods())
		b := m.Rules[0]
		if msg, rr, _ := genForBinding(r, b, ""); msg != nil {
			o := c17Probe(t, rr)
			c.Eval()
			c.Count("binding-probes")
			if o.method != m.Path {
				c.Violate(i, "annotated-binding-not-served", fmt.Sprintf("rule %s %s on %s: request %s %s observed %s\n%s", b.HTTPMethod, b.Template, m.Path, rr.Method, rr.RawPath, o, cfg.describe()))
			}
		}
	}
	// exact selectors do not leak to methods sharing the prefix: RPC paths of Sel still go to themselves and
	// the rule URL reaches only the named method (checked above); and (c) per-service options beat defaults
	for _, s := range cfg.svcs {
		m := pick(r, s.ms)
		restOnly := len(s.protos) == 1 && s.protos[0] == "rest"
		if restOnly {
			// only methods with a binding can be reached at all
			bound := cfg.boundBy(s)
			if len(bound) == 0 {
				continue
			}
			m = pick(r, bound)
		}
		if m.Stream != stUnary {
			continue
		}
		form := pick(r, []ClientForm{FConnectUnary, FGRPC, FGRPCWeb})
		creq := &ClientReq{Form: form, M: m, Codec: pick(r, []string{"proto", "json"}), Msgs: []proto.Message{genMessage(r, m.In(), genOpts{density: 3})}, HTTP2: true}
		if restOnly {
			// the request must be expressible under the method's binding
			var fit proto.Message
			for _, rule := range cfg.rules {
				if len(cfg.ruleFor[rule]) > 0 && cfg.ruleFor[rule][0] == m {
					if b, berr := bindingFromRule(m.Desc, rule); berr == nil {
						fit, _, _ = genForBinding(r, b, "")
					}
					break
				}
			}
			if fit == nil {
				continue
			}
			creq.Msgs = []proto.Message{fit}
			c.Count("rest-only-by-rules-probes")
		}
		script := &BackendScript{Msgs: []proto.Message{genMessage(r, m.Out(), genOpts{density: 3})}}
		built, berr := creq.Build(r)
		if berr != nil {
			continue
		}
		be := newBackend(s.ms, script)
		rec := newRecorder()
		ctx := context.WithValue(context.Background(), ctxKey{}, http.Handler(be))
		t.ServeHTTP(rec, built.Req.WithContext(ctx))
		c.Eval()
		c.Count("option-probes")
		bo := be.Obs
		if bo.Invocations != 1 {
			c.Violate(i, "configured-method-not-served", fmt.Sprintf("%s request for %s was not dispatched (status %d)\n%s", form, m.Path, rec.Code, cfg.describe()))
			continue
		}
		if !contains(s.protos, bo.target()) {
			c.Violate(i, "service-protocols-not-honoured", fmt.Sprintf("service %s configured with %v (defaults %v) but backend was addressed in %s\n%s", s.name, s.protos, cfg.defProto, bo.Proto, cfg.describe()))
		}
		if !contains(s.codecs, bo.Codec) {
			c.Violate(i, "service-codecs-not-honoured", fmt.Sprintf("service %s codecs %v, backend saw %s\n%s", s.name, s.codecs, bo.Codec, cfg.describe()))
		}
		if bo.MethodInfo != nil && bo.MethodInfo.Path != m.Path {
			c.Violate(i, "rpc-path-misrouted", cfg.describe())
		}
	}
}

func c17Probe(t *vanguard.Transcoder, rr *RESTReq) routeOutcome {
	sb := &ScriptBody{Data: rr.Body}
	target := rr.RawPath
	if rr.RawQuery != "" {
		target += "?" + rr.RawQuery
	}
	req, err := newServerRequest(rr.Method, target, sb)
	if err != nil {
		return routeOutcome{status: -1}
	}
	if rr.HasBody {
		req.Header.Set("Content-Type", rr.ContentType)
	}
	req.ContentLength = int64(len(rr.Body))
	be := &routeBackend{}
	ctx := context.WithValue(context.Background(), ctxKey{}, http.Handler(be))
	rec := newRecorder()
	t.ServeHTTP(rec, req.WithContext(ctx))
	rec.Finish()
	out := routeOutcome{status: rec.Code}
	if be.n > 0 {
		out.method = be.path
	}
	return out
}
